import St4sd.Model.Hash
import St4sd.Model.HashExe
import St4sd.Lemmas.C16Split
import St4sd.Lemmas.C16Decode
import St4sd.Lemmas.C16Fs
import St4sd.Lemmas.C16Multi
import St4sd.Lemmas.C16Cache
/-!
# C16 — Memoization hashes identify equivalent work and nothing else

Property theorems about `St4sd.Hash` (model of `_compute_memoization_info` / `_memoization_info_to_hash`).
`md5` is a parameter everywhere; `Function.Injective md5` is a hypothesis where it is needed.
-/
namespace St4sd.C16
open St4sd.Str St4sd.Hash

/-! ### names, location, time -/

/-- The component is known to the blueprint table: under its own name with its own executable, or — for a
replica `<b><replica index>` that is not itself an unreplicated component — through its blueprint `b`. -/
inductive Registered (bps : Blueprints) (c : Comp) : Prop
  | own : lookupBp bps (c.stage, c.name) = some c.exe → Registered bps c
  | replica (b : S) (r : Nat) : lookupBp bps (c.stage, c.name) = none → c.replica = some r →
      c.name = b ++ natToDigits r → lookupBp bps (c.stage, b) = some c.exe → Registered bps c

private theorem take_append_self (b d : S) : (b ++ d).take ((b ++ d).length - d.length) = b := by
  simp

private theorem isSuffixOf_append (b d : S) : d.isSuffixOf (b ++ d) = true := by
  simp

/-- With the repaired lookup the executable that enters the hash is the component's own. -/
theorem blueprint_lookup_own (bps : Blueprints) (c : Comp) (h : Registered bps c) :
    lookupBp bps (c.stage, blueprintName bps c) = some c.exe := by
  cases h with
  | own h => simp [blueprintName, h]
  | replica b r hn hr hname hb =>
    simp only [blueprintName, hn, hr, Option.isSome_none, Bool.false_eq_true, if_false]
    rw [hname, isSuffixOf_append, if_pos rfl, take_append_self]
    exact hb

theorem mkInfo_eq_infoCore (md5 : S → S) (fuzzy : Bool) (bps : Blueprints) (ph : Nat → Option S) (c : Comp)
    (h : Registered bps c) :
    mkInfo md5 fuzzy bps ph c = infoCore md5 fuzzy ph (imageOf c.backend) c.exe c.args c.refs := by
  simp [mkInfo, blueprint_lookup_own bps c h]

/-- **Location, names, time.**  Two components — anywhere, under any component name, stage index, instance
location and modification time, in any two experiments (blueprint tables) — that are declared with the same
executable, arguments, references (spellings + what they point to) and backend get the same strong and the
same fuzzy hash (given the same producer hashes). -/
theorem hash_ignores_location_names_time (md5 : S → S) (fuzzy : Bool) (bps₁ bps₂ : Blueprints)
    (hs : List (Option S)) (c₁ c₂ : Comp) (h₁ : Registered bps₁ c₁) (h₂ : Registered bps₂ c₂)
    (hexe : c₁.exe = c₂.exe) (hargs : c₁.args = c₂.args) (hrefs : c₁.refs = c₂.refs)
    (hb : c₁.backend = c₂.backend) :
    hashOne md5 fuzzy bps₁ hs c₁ = hashOne md5 fuzzy bps₂ hs c₂ := by
  simp [hashOne, mkInfo_eq_infoCore _ _ _ _ _ h₁, mkInfo_eq_infoCore _ _ _ _ _ h₂, hexe, hargs, hrefs, hb]

/-- … in particular moving / renaming / re-timing one component changes nothing. -/
theorem hash_ignores_location_names_time' (md5 : S → S) (fuzzy : Bool) (bps : Blueprints)
    (hs : List (Option S)) (c : Comp) (loc : S) (t : Nat) :
    hashOne md5 fuzzy bps hs { c with location := loc, mtime := t } = hashOne md5 fuzzy bps hs c := by
  rfl

/-- non-vacuity: a replica `calc21` of blueprint `calc2` and an unreplicated `step7` are both `Registered` -/
example : Registered [((0, "calc2".toList), "/bin/ls".toList)]
    { name := "calc21".toList, stage := 0, location := [], mtime := 0, replica := some 1, exe := "/bin/ls".toList,
      args := [], refs := [], backend := .loc } :=
  .replica "calc2".toList 1 (by decide) rfl (by decide) (by decide)

example : Registered [((1, "step7".toList), "/bin/cat".toList)]
    { name := "step7".toList, stage := 1, location := [], mtime := 0, replica := none, exe := "/bin/cat".toList,
      args := [], refs := [], backend := .loc } :=
  .own (by decide)

/-! ### missing inputs -/

private theorem mem_insertLen (x r : Ref) (l : List Ref) : r ∈ insertLen x l ↔ r = x ∨ r ∈ l := by
  induction l with
  | nil => simp [insertLen]
  | cons y ys ih =>
    simp only [insertLen]
    split
    · simp
    · simp only [List.mem_cons, ih]; constructor <;> (intro h; rcases h with h | h | h <;> simp [h])

private theorem mem_sortRefs (r : Ref) (l : List Ref) : r ∈ sortRefs l ↔ r ∈ l := by
  induction l with
  | nil => simp [sortRefs]
  | cons x xs ih => simp [sortRefs, mem_insertLen, ih]

/-- a reference whose file is not there -/
def _root_.St4sd.Hash.Ref.Missing (r : Ref) : Prop := r.target = .file none ∨ ∃ p, r.target = .prodFile p none

private theorem entryOf_missing (md5 : S → S) (fuzzy : Bool) (ph : Nat → Option S) (r : Ref) (h : r.Missing) :
    entryOf md5 fuzzy ph r = .fail := by
  rcases h with h | ⟨p, h⟩ <;> simp [entryOf, h]

private theorem fileEntries_missing (md5 : S → S) (fuzzy : Bool) (ph : Nat → Option S) (l : List Ref)
    (r : Ref) (hr : r ∈ l) (h : r.Missing) : fileEntries md5 fuzzy ph l = none := by
  induction l with
  | nil => cases hr
  | cons x xs ih =>
    simp only [fileEntries]
    rcases List.mem_cons.mp hr with rfl | hx
    · simp [entryOf_missing md5 fuzzy ph r h]
    · split
      · rfl
      · exact ih hx
      · simp [ih hx]

/-- **No hash while a referenced input is missing** (strong and fuzzy, whatever the blueprint table, the
producer hashes, and the rest of the component). -/
theorem no_hash_when_input_missing (md5 : S → S) (fuzzy : Bool) (bps : Blueprints) (hs : List (Option S))
    (c : Comp) (r : Ref) (hr : r ∈ c.refs) (h : r.Missing) : hashOne md5 fuzzy bps hs c = none := by
  have : fileEntries md5 fuzzy (getH hs) (sortRefs c.refs) = none :=
    fileEntries_missing md5 fuzzy _ _ r ((mem_sortRefs r c.refs).mpr hr) h
  simp only [hashOne, mkInfo]
  split
  · rfl
  · simp [infoCore, this]

/-- non-vacuity of `Missing`, and a component with all inputs present does get a hash -/
example : Ref.Missing ⟨"input/a.txt:ref".toList, "input/a.txt:ref".toList, "ref".toList, [], .file none⟩ :=
  .inl rfl

example : (hashOne (fun x => 'h' :: x) false [((0, "c".toList), "/bin/ls".toList)] []
    { name := "c".toList, stage := 0, location := [], mtime := 0, replica := none, exe := "/bin/ls".toList,
      args := "-l input/a.txt:ref".toList,
      refs := [⟨"input/a.txt:ref".toList, "input/a.txt:ref".toList, "ref".toList, [], .file (some "AAA".toList)⟩],
      backend := .loc }).isSome = true := by decide

/-! ### fuzzy hashes and produced contents -/

/-- replace the contents of every *produced* file that exists by `f contents` -/
def _root_.St4sd.Hash.Ref.withProduced (f : S → S) (r : Ref) : Ref :=
  match r.target with
  | .prodFile p (some c) => { r with target := .prodFile p (some (f c)) }
  | _ => r

def _root_.St4sd.Hash.Comp.withProduced (f : S → S) (c : Comp) : Comp := { c with refs := c.refs.map (Ref.withProduced f) }

private theorem withProduced_abs (f : S → S) (r : Ref) : (r.withProduced f).abs = r.abs := by
  unfold Ref.withProduced; split <;> rfl
private theorem withProduced_rel (f : S → S) (r : Ref) : (r.withProduced f).rel = r.rel := by
  unfold Ref.withProduced; split <;> rfl
private theorem withProduced_method (f : S → S) (r : Ref) : (r.withProduced f).method = r.method := by
  unfold Ref.withProduced; split <;> rfl
private theorem withProduced_producer (f : S → S) (r : Ref) :
    (r.withProduced f).target.producer? = r.target.producer? := by
  unfold Ref.withProduced; split
  · rename_i h; simp [h, Target.producer?]
  · rfl

private theorem insertLen_map (f : S → S) (x : Ref) (l : List Ref) :
    insertLen (x.withProduced f) (l.map (Ref.withProduced f)) = (insertLen x l).map (Ref.withProduced f) := by
  induction l with
  | nil => simp [insertLen]
  | cons y ys ih =>
    simp only [List.map_cons, insertLen, withProduced_abs]
    split
    · simp
    · simp [ih]

private theorem sortRefs_map (f : S → S) (l : List Ref) :
    sortRefs (l.map (Ref.withProduced f)) = (sortRefs l).map (Ref.withProduced f) := by
  induction l with
  | nil => simp [sortRefs]
  | cons x xs ih => simp [sortRefs, ih, insertLen_map]

private theorem entryOf_withProduced (md5 : S → S) (ph : Nat → Option S) (f : S → S) (r : Ref) :
    entryOf md5 true ph (r.withProduced f) = entryOf md5 true ph r := by
  unfold Ref.withProduced
  split
  · rename_i p c h
    simp [entryOf, h]
  · rfl

private theorem fileEntries_withProduced (md5 : S → S) (ph : Nat → Option S) (f : S → S) (l : List Ref) :
    fileEntries md5 true ph (l.map (Ref.withProduced f)) = fileEntries md5 true ph l := by
  induction l with
  | nil => rfl
  | cons x xs ih => simp [fileEntries, entryOf_withProduced, ih]

private theorem replacementOf_withProduced (fuzzy : Bool) (es : List FileEntry) (ph : Nat → Option S) (f : S → S)
    (r : Ref) : replacementOf fuzzy es ph (r.withProduced f) = replacementOf fuzzy es ph r := by
  unfold replacementOf
  rw [withProduced_abs, withProduced_method, withProduced_producer]

private theorem replaceRefs_withProduced (fuzzy : Bool) (toks : List S) (es : List FileEntry)
    (ph : Nat → Option S) (f : S → S) (l : List Ref) (a : S) :
    replaceRefs fuzzy toks es ph (l.map (Ref.withProduced f)) a = replaceRefs fuzzy toks es ph l a := by
  induction l generalizing a with
  | nil => rfl
  | cons x xs ih =>
    simp only [List.map_cons, replaceRefs, withProduced_abs, withProduced_rel, replacementOf_withProduced]
    split
    · exact ih a
    · split
      · rfl
      · exact ih a
      · exact ih _

private theorem infoCore_withProduced (md5 : S → S) (ph : Nat → Option S) (f : S → S) (img : Option S)
    (exe args : S) (refs : List Ref) :
    infoCore md5 true ph img exe args (refs.map (Ref.withProduced f)) = infoCore md5 true ph img exe args refs := by
  simp only [infoCore, sortRefs_map, fileEntries_withProduced, replaceRefs_withProduced]

theorem mkInfo_fuzzy_withProduced (md5 : S → S) (bps : Blueprints) (ph : Nat → Option S) (f : S → S) (c : Comp) :
    mkInfo md5 true bps ph (c.withProduced f) = mkInfo md5 true bps ph c := by
  show (match lookupBp bps (c.stage, blueprintName bps c) with
    | none => none
    | some exe => infoCore md5 true ph (imageOf c.backend) exe c.args (c.refs.map (Ref.withProduced f))) = _
  simp only [infoCore_withProduced]
  rfl

private theorem hashesAux_withProduced (md5 : S → S) (bps : Blueprints) (f : S → S) (cs : List Comp)
    (acc : List (Option S)) :
    hashesAux md5 true bps (cs.map (Comp.withProduced f)) acc = hashesAux md5 true bps cs acc := by
  induction cs generalizing acc with
  | nil => rfl
  | cons c cs ih => simp [hashesAux, hashOne, mkInfo_fuzzy_withProduced, ih]

/-- **The fuzzy hash ignores the contents of files produced by other components**: rewriting the contents of
every produced file (that exists) in every component of the experiment leaves every fuzzy hash unchanged —
by recursion over the whole DAG. -/
theorem fuzzy_ignores_produced_contents (md5 : S → S) (bps : Blueprints) (f : S → S) (cs : List Comp) :
    hashes md5 true bps (cs.map (Comp.withProduced f)) = hashes md5 true bps cs :=
  hashesAux_withProduced md5 bps f cs []

private def exConsumer : Comp :=
  { name := "c".toList, stage := 0, location := [], mtime := 0, replica := none, exe := "/bin/cat".toList,
    args := "p/o:ref".toList,
    refs := [⟨"stage0.p/o:ref".toList, "p/o:ref".toList, "ref".toList, "o".toList, .prodFile 0 (some "X".toList)⟩],
    backend := .loc }
private def exBps : Blueprints := [((0, "c".toList), "/bin/cat".toList)]

/-- non-vacuity: the same rewrite does change the *strong* hash of a consumer (with an injective `md5`) -/
example : hashOne (fun x => 'h' :: x) false exBps [some "ff".toList] (exConsumer.withProduced (fun x => 'Y' :: x))
    ≠ hashOne (fun x => 'h' :: x) false exBps [some "ff".toList] exConsumer := by decide

/-! ### the fuzzy hash tracks the producers -/

private def entryStr (e : FileEntry) : S := e.hash ++ ':' :: e.method

private theorem entryOf_skip_iff (md5 : S → S) (ph ph' : Nat → Option S) (x : Ref) :
    (entryOf md5 true ph x = .skip ↔ entryOf md5 true ph' x = .skip) := by
  unfold entryOf
  cases x.target with
  | file c => cases c <;> simp <;> split <;> simp
  | dir => simp
  | prodDir p => simp
  | prodFile p c =>
    cases c with
    | none => simp
    | some c => simp only [if_true]; cases ph p <;> cases ph' p <;> simp

private theorem fileEntries_track (md5 : S → S) (ph ph' : Nat → Option S) (r : Ref) (p : Nat) (content h h' : S)
    (ht : r.target = .prodFile p (some content)) (hp : ph p = some h) (hp' : ph' p = some h') (hne : h ≠ h')
    (l : List Ref) (hr : r ∈ l) (E E' : List FileEntry)
    (hE : fileEntries md5 true ph l = some E) (hE' : fileEntries md5 true ph' l = some E') :
    E.map entryStr ≠ E'.map entryStr := by
  induction l generalizing E E' with
  | nil => cases hr
  | cons x xs ih =>
    simp only [fileEntries] at hE hE'
    by_cases hx : x = r
    · subst hx
      simp only [entryOf, ht, hp, hp', if_true] at hE hE'
      cases h1 : fileEntries md5 true ph xs with
      | none => simp [h1] at hE
      | some E1 =>
        cases h2 : fileEntries md5 true ph' xs with
        | none => simp [h2] at hE'
        | some E2 =>
          simp only [h1, h2, Option.map_some, Option.some.injEq] at hE hE'
          subst hE; subst hE'
          intro e
          simp only [List.map_cons, List.cons.injEq, entryStr] at e
          have := e.1
          simp only [List.append_assoc, List.cons_append] at this
          have := List.append_cancel_left this
          exact hne (List.append_cancel_right this)
    · have hr' : r ∈ xs := by
        rcases List.mem_cons.mp hr with h0 | h0
        · exact absurd h0.symm hx
        · exact h0
      have hsk := entryOf_skip_iff md5 ph ph' x
      cases e1 : entryOf md5 true ph x with
      | fail => simp [e1] at hE
      | skip =>
        rw [hsk.mp e1] at hE'
        simp only [e1] at hE
        exact ih hr' E E' hE hE'
      | entry a =>
        cases e2 : entryOf md5 true ph' x with
        | fail => simp [e2] at hE'
        | skip => rw [hsk.mpr e2] at e1; cases e1
        | entry b =>
          simp only [e1, e2] at hE hE'
          cases h1 : fileEntries md5 true ph xs with
          | none => simp [h1] at hE
          | some E1 =>
            cases h2 : fileEntries md5 true ph' xs with
            | none => simp [h2] at hE'
            | some E2 =>
              simp only [h1, h2, Option.map_some, Option.some.injEq] at hE hE'
              subst hE; subst hE'
              intro e
              simp only [List.map_cons, List.cons.injEq] at e
              exact ih hr' E1 E2 h1 h2 e.2

/-- **The fuzzy info changes when the fuzzy hash of a producer changes — partial**: if the component consumes a
file of producer `p` (any method) and the two assignments of producer hashes differ at `p`, the lists of file
entries that are hashed differ.  Partial: (a) stated on the hashed data, not yet on the digest — the step to
the digest is `same_hash_iff_same_work_partial` (hypothesis `SepFree`) together with `files_decodable`;
(b) a producer consumed *only* through a copy/link of its working directory is not tracked by the code at
all: `Witness.C16.fuzzy_does_not_track_directory_copy` (known finding). -/
theorem fuzzy_tracks_producer_partial (md5 : S → S) (bps : Blueprints) (ph ph' : Nat → Option S) (c : Comp)
    (r : Ref) (hr : r ∈ c.refs) (p : Nat) (content h h' : S) (ht : r.target = .prodFile p (some content))
    (hp : ph p = some h) (hp' : ph' p = some h') (hne : h ≠ h') (i i' : Info)
    (hi : mkInfo md5 true bps ph c = some i) (hi' : mkInfo md5 true bps ph' c = some i') :
    i.files ≠ i'.files := by
  simp only [mkInfo] at hi hi'
  cases hb : lookupBp bps (c.stage, blueprintName bps c) with
  | none => simp [hb] at hi
  | some exe =>
    simp only [hb, infoCore] at hi hi'
    cases h1 : fileEntries md5 true ph (sortRefs c.refs) with
    | none => simp [h1] at hi
    | some E =>
      cases h2 : fileEntries md5 true ph' (sortRefs c.refs) with
      | none => simp [h2] at hi'
      | some E' =>
        have key := fileEntries_track md5 ph ph' r p content h h' ht hp hp' hne (sortRefs c.refs)
          ((mem_sortRefs r c.refs).mpr hr) E E' h1 h2
        simp only [h1] at hi
        simp only [h2] at hi'
        cases ha : replaceRefs true (tokens c.args) E ph (sortRefs c.refs) c.args with
        | none => simp [ha] at hi
        | some a =>
          cases ha' : replaceRefs true (tokens c.args) E' ph' (sortRefs c.refs) c.args with
          | none => simp [ha'] at hi'
          | some a' =>
            simp only [ha, Option.some.injEq] at hi
            simp only [ha', Option.some.injEq] at hi'
            subst hi; subst hi'
            exact key

/-- one step of the chain, on digests, for the consumer of a single produced file (no sorting involved):
different producer hashes give different consumer hashes -/
example : hashOne (fun x => 'h' :: x) true exBps [some "aa".toList] exConsumer
    ≠ hashOne (fun x => 'h' :: x) true exBps [some "bb".toList] exConsumer := by decide

/-! ### same hash ⇔ same work -/

/-- **Hypothesis of the partial theorem** (decidable): no key word of the serialisation occurs *early* in the
value that precedes it — `commandarguments` in the image part, `executable` in the arguments (after the
references have been replaced), `files` in the executable.  ("Early" = inside the value or overlapping its
end, see `NoEarly`; `executable` overlaps itself by its first/last letter.)  Without it the full statement is
false of the code: `Witness.C16`. -/
def SepFree (i : Info) : Prop :=
  NoEarly (kCommand ++ kArguments) (serBackend i.image) ∧ NoEarly kExecutable i.args ∧ NoEarly kFiles i.exe

instance (i : Info) : Decidable (SepFree i) := by unfold SepFree; infer_instance

/-- what the property calls "the same work", on the computed infos: same container image, same arguments after
each reference has been replaced by the hash of what it refers to, same executable, and the same
`hash:method` entries of the consumed files irrespective of their order (as one sorted buffer). -/
def SameWork (i₁ i₂ : Info) : Prop :=
  i₁.image = i₂.image ∧ i₁.args = i₂.args ∧ i₁.exe = i₂.exe ∧
    concat (sortStr i₁.files) = concat (sortStr i₂.files)

instance (i₁ i₂ : Info) : Decidable (SameWork i₁ i₂) := by unfold SameWork; infer_instance

private theorem serBackend_inj (a b : Option S) (h : serBackend a = serBackend b) : a = b := by
  cases a <;> cases b <;> simp_all [serBackend, kImage]

private theorem serialize_shape (i : Info) :
    serialize i = kBackend ++ (serBackend i.image ++ (kCommand ++ kArguments) ++
      (i.args ++ kExecutable ++ (i.exe ++ kFiles ++ concat (sortStr i.files)))) := by
  simp [serialize, List.append_assoc]

/-- the separator-less buffer determines the info up to the order of the file entries — under `SepFree` -/
theorem serialize_eq_iff_partial (i₁ i₂ : Info) (h₁ : SepFree i₁) (h₂ : SepFree i₂) :
    serialize i₁ = serialize i₂ ↔ SameWork i₁ i₂ := by
  constructor
  · intro e
    rw [serialize_shape, serialize_shape] at e
    have e1 := List.append_cancel_left e
    obtain ⟨hb, e2⟩ := append_key_inj _ _ _ _ _ (by decide) h₁.1 h₂.1 e1
    obtain ⟨ha, e3⟩ := append_key_inj _ _ _ _ _ (by decide) h₁.2.1 h₂.2.1 e2
    obtain ⟨he, hf⟩ := append_key_inj _ _ _ _ _ (by decide) h₁.2.2 h₂.2.2 e3
    exact ⟨serBackend_inj _ _ hb, ha, he, hf⟩
  · rintro ⟨h1, h2, h3, h4⟩
    simp [serialize, h1, h2, h3, h4]

/-- **Same strong (or fuzzy) hash exactly when same work — partial**: for two components whose infos exist and
are `SepFree`, with an injective `md5`.  Partial because (a) `SepFree` excludes the inputs on which the
separator-less serialisation collides (known finding, `Witness.C16.collision_*`), (b) the file entries are
compared as one sorted buffer (`files_decodable` upgrades this to equality of the sorted entry lists when the
entries have the shape the code produces). -/
theorem same_hash_iff_same_work_partial (md5 : S → S) (hinj : Function.Injective md5) (fuzzy : Bool)
    (bps₁ bps₂ : Blueprints) (hs₁ hs₂ : List (Option S)) (c₁ c₂ : Comp) (i₁ i₂ : Info)
    (hi₁ : mkInfo md5 fuzzy bps₁ (getH hs₁) c₁ = some i₁) (hi₂ : mkInfo md5 fuzzy bps₂ (getH hs₂) c₂ = some i₂)
    (h₁ : SepFree i₁) (h₂ : SepFree i₂) :
    hashOne md5 fuzzy bps₁ hs₁ c₁ = hashOne md5 fuzzy bps₂ hs₂ c₂ ↔ SameWork i₁ i₂ := by
  simp only [hashOne, hi₁, hi₂, Option.map_some, Option.some.injEq, hashInfo]
  rw [← serialize_eq_iff_partial i₁ i₂ h₁ h₂]
  exact ⟨fun h => hinj h, fun h => congrArg md5 h⟩

/-- … and a component without hash never shares one. -/
theorem no_hash_never_equal (md5 : S → S) (fuzzy : Bool) (bps₁ bps₂ : Blueprints) (hs₁ hs₂ : List (Option S))
    (c₁ c₂ : Comp) (h : hashOne md5 fuzzy bps₁ hs₁ c₁ = none) (i₂ : Info)
    (hi₂ : mkInfo md5 fuzzy bps₂ (getH hs₂) c₂ = some i₂) :
    hashOne md5 fuzzy bps₁ hs₁ c₁ ≠ hashOne md5 fuzzy bps₂ hs₂ c₂ := by
  rw [h]
  simp [hashOne, hi₂]

private theorem mem_insertStr (x e : S) (l : List S) : e ∈ insertStr x l ↔ e = x ∨ e ∈ l := by
  induction l with
  | nil => simp [insertStr]
  | cons y ys ih =>
    simp only [insertStr]
    split
    · simp
    · simp only [List.mem_cons, ih]; constructor <;> (intro h; rcases h with h | h | h <;> simp [h])

private theorem mem_sortStr (e : S) (l : List S) : e ∈ sortStr l ↔ e ∈ l := by
  induction l with
  | nil => simp [sortStr]
  | cons x xs ih => simp [sortStr, mem_insertStr, ih]

/-- **Same work means the same consumed files through the same methods**: when the file entries have the
shape the code produces (`goodEntry`: `<digest or fuzzy#digest#file>:<method>`), equality of the sorted
buffers (last clause of `SameWork`) is equality of the sorted lists of `hash:method` entries. -/
theorem same_work_same_entries (i₁ i₂ : Info) (g₁ : ∀ e ∈ i₁.files, goodEntry e = true)
    (g₂ : ∀ e ∈ i₂.files, goodEntry e = true) (h : SameWork i₁ i₂) : sortStr i₁.files = sortStr i₂.files :=
  files_decodable _ _ (fun e he => g₁ e ((mem_sortStr e _).mp he)) (fun e he => g₂ e ((mem_sortStr e _).mp he))
    h.2.2.2

example : goodEntry "e1faffb3e614e6c2fba74296962386b7:copyout".toList = true := by decide
example : goodEntry "fuzzy#498ec47df68c49c2109df5e3de567899#out.txt:ref".toList = true := by decide
example : goodEntry "no-method".toList = false := by decide

/-- non-vacuity: a typical info is `SepFree`; the colliding ones of the witness are not -/
example : SepFree ⟨some "foo/bar:1".toList, "-l file:0a1b:ref x=producer:ff:ref".toList, "/bin/ls".toList,
    ["0a1b:ref".toList]⟩ := by decide
example : ¬ SepFree ⟨none, "aexecutableb".toList, "c".toList, []⟩ := by decide
example : ¬ SepFree ⟨none, "xexecutabl".toList, "E".toList, []⟩ := by decide

/-- a different executable, argument text, image, or file entry is different work (so, by the theorem, a
different hash) -/
example : ¬ SameWork ⟨none, "-l".toList, "/bin/ls".toList, []⟩ ⟨none, "-l".toList, "/bin/cat".toList, []⟩ := by
  decide
example : ¬ SameWork ⟨some "a:1".toList, [], "x".toList, []⟩ ⟨some "a:2".toList, [], "x".toList, []⟩ := by decide
example : ¬ SameWork ⟨none, [], "x".toList, ["0a:copy".toList]⟩ ⟨none, [], "x".toList, ["0a:link".toList]⟩ := by
  decide
example : SameWork ⟨none, [], "x".toList, ["0a:copy".toList, "ff:ref".toList]⟩
    ⟨none, [], "x".toList, ["ff:ref".toList, "0a:copy".toList]⟩ := by decide

/-! ### histories: the hash is a function of the *current* contents of the file system

`Model/HashFs.lean`: references name paths, the hash is computed on the file system as it is at that moment
(`hashesFs`), the file system evolves by `Op`s (rewrite in place / replace / touch / remove / rename / re-create
the experiment object).  The model has no state but the file system; the theorems below say that — of the file
system — only `view` (what exists at the referenced paths, and the contents of the files) matters: no
modification time, inode, length-and-time signature or earlier content can influence a hash, so an
implementation that reuses a digest computed for an earlier content of a path is outside the model (the
harness compares every observation of a history with `observeHistory`). -/

/-- two file systems show the same thing (nothing / a directory / a file with the same contents) at every path
a component of `cs` refers to -/
def AgreeOn (cs : List SComp) (fs₁ fs₂ : Fs) : Prop :=
  ∀ c ∈ cs, ∀ r ∈ c.refs, view fs₁ r.loc.path = view fs₂ r.loc.path

private theorem resolve_comp_congr (fs₁ fs₂ : Fs) (c : SComp)
    (h : ∀ r ∈ c.refs, view fs₁ r.loc.path = view fs₂ r.loc.path) : c.resolve fs₁ = c.resolve fs₂ := by
  have : c.refs.map (SRef.resolve fs₁) = c.refs.map (SRef.resolve fs₂) :=
    List.map_congr_left (fun r hr => resolve_congr fs₁ fs₂ r (h r hr))
  simp [SComp.resolve, this]

/-- **The hash is a function of the current contents.**  Strong and fuzzy hashes of every component of the
graph are the same on any two file systems that agree — in existence, kind and file contents — on the
referenced paths; modification times, inodes and everything else are not read. -/
theorem hash_function_of_current_contents (md5 : S → S) (fuzzy : Bool) (bps : Blueprints) (cs : List SComp)
    (fs₁ fs₂ : Fs) (h : AgreeOn cs fs₁ fs₂) :
    hashesFs md5 fuzzy bps fs₁ cs = hashesFs md5 fuzzy bps fs₂ cs := by
  unfold hashesFs
  rw [List.map_congr_left (fun c hc => resolve_comp_congr fs₁ fs₂ c (h c hc))]

/-- **Stale state cannot matter.**  Whatever two histories did before (from whatever initial file systems):
if the file systems they end in agree on the referenced paths, the hashes computed then are equal. -/
theorem hash_ignores_history (md5 : S → S) (fuzzy : Bool) (bps : Blueprints) (cs : List SComp) (fs₁ fs₂ : Fs)
    (ops₁ ops₂ : List Op) (h : AgreeOn cs (run fs₁ ops₁) (run fs₂ ops₂)) :
    hashesFs md5 fuzzy bps (run fs₁ ops₁) cs = hashesFs md5 fuzzy bps (run fs₂ ops₂) cs :=
  hash_function_of_current_contents md5 fuzzy bps cs _ _ h

private theorem states_getLast (fs : Fs) (ops : List Op) : (states fs ops).getLast? = some (run fs ops) := by
  induction ops generalizing fs with
  | nil => rfl
  | cons op ops ih =>
    have hne : states (step fs op) ops ≠ [] := by cases ops <;> simp [states]
    simp only [states, run, List.foldl_cons]
    rw [List.getLast?_cons_of_ne_nil hne]
    exact ih (step fs op)

/-- the last observation of a history is the hash of the final file system (`observeHistory` is what the
harness compares with the real hashes after every step) -/
theorem observeHistory_last (md5 : S → S) (fuzzy : Bool) (bps : Blueprints) (cs : List SComp) (fs : Fs)
    (ops : List Op) :
    (observeHistory md5 fuzzy bps cs fs ops).getLast? = some (hashesFs md5 fuzzy bps (run fs ops) cs) := by
  simp [observeHistory, List.getLast?_map, states_getLast]

/-- changing only the modification time of a file changes no hash -/
theorem hash_ignores_touch (md5 : S → S) (fuzzy : Bool) (bps : Blueprints) (cs : List SComp) (fs : Fs) (p : S)
    (t : Nat) : hashesFs md5 fuzzy bps (step fs (.touch p t)) cs = hashesFs md5 fuzzy bps fs cs :=
  hash_function_of_current_contents md5 fuzzy bps cs _ _ (fun _ _ _ _ => view_touch fs p t _)

/-- re-creating the experiment object (or resetting the cached hashes) changes no hash -/
theorem hash_ignores_reload (md5 : S → S) (fuzzy : Bool) (bps : Blueprints) (cs : List SComp) (fs : Fs) :
    hashesFs md5 fuzzy bps (step fs .reload) cs = hashesFs md5 fuzzy bps fs cs := rfl

/-- **hash after update**: after `c` has been written to `p` the hashes are those of a file system that holds
`c` at `p` — whatever was at `p` before (other contents of the same or another length, nothing), whatever the
modification times and inodes before and after. -/
theorem hash_after_update (md5 : S → S) (fuzzy : Bool) (bps : Blueprints) (cs : List SComp) (fs fs' : Fs)
    (p c : S) (t i t' i' : Nat) (h : ∀ q, q ≠ p → view fs q = view fs' q) :
    hashesFs md5 fuzzy bps (step fs (.write p c t i)) cs = hashesFs md5 fuzzy bps (step fs' (.write p c t' i')) cs := by
  apply hash_function_of_current_contents
  intro _ _ r _
  rw [view_write, view_write]
  by_cases hq : r.loc.path = p
  · simp [hq]
  · simp [hq, h _ hq]

/-- writing other contents and then the original contents back (at any times) restores every hash -/
theorem hash_after_write_back (md5 : S → S) (fuzzy : Bool) (bps : Blueprints) (cs : List SComp) (fs : Fs)
    (p x y : S) (t i t' i' : Nat) (hx : view fs p = some (some x)) :
    hashesFs md5 fuzzy bps (step (step fs (.write p y t i)) (.write p x t' i')) cs = hashesFs md5 fuzzy bps fs cs := by
  apply hash_function_of_current_contents
  intro _ _ r _
  rw [view_write, view_write]
  by_cases hq : r.loc.path = p
  · simp [hq, hx]
  · simp [hq]

/-- renaming a file is removing it and writing its contents at the new path (time and inode are free) -/
theorem hash_after_rename (md5 : S → S) (fuzzy : Bool) (bps : Blueprints) (cs : List SComp) (fs : Fs)
    (a b c : S) (t i t' i' : Nat) (ha : lookupFs fs a = some (.file c t i)) (hab : a ≠ b) :
    hashesFs md5 fuzzy bps (step fs (.rename a b)) cs =
      hashesFs md5 fuzzy bps (step (step fs (.remove a)) (.write b c t' i')) cs := by
  apply hash_function_of_current_contents
  intro _ _ r _
  rw [view_rename fs a b c t i ha hab, view_write]
  by_cases hq : r.loc.path = b
  · simp [hq]
  · simp only [hq, if_false, step, view_remove]

/-- the paths an operation touches -/
def _root_.St4sd.Hash.Op.paths : Op → List S
  | .write p _ _ _ => [p]
  | .touch p _ => [p]
  | .remove p => [p]
  | .rename a b => [a, b]
  | .reload => []

private theorem view_step_other (fs : Fs) (op : Op) (q : S) (h : q ∉ op.paths) : view (step fs op) q = view fs q := by
  cases op with
  | write p c t i =>
    have : q ≠ p := by simpa [Op.paths] using h
    rw [view_write, if_neg this]
  | touch p t => exact view_touch fs p t q
  | remove p =>
    have : q ≠ p := by simpa [Op.paths] using h
    simp only [step, view_remove, if_neg this]
  | rename a b =>
    have hq : q ≠ a ∧ q ≠ b := by simpa [Op.paths] using h
    cases hl : lookupFs fs a with
    | none => simp only [step, hl]
    | some n =>
      cases n with
      | dir => simp only [step, hl]
      | file c t i =>
        by_cases hab : a = b
        · subst hab; simp [step, hl]
        · rw [view_rename fs a b c t i hl hab, if_neg hq.2, if_neg hq.1]
  | reload => rfl

/-- **frame**: an operation on paths no component refers to changes no hash -/
theorem hash_unaffected_by_unreferenced_paths (md5 : S → S) (fuzzy : Bool) (bps : Blueprints) (cs : List SComp)
    (fs : Fs) (op : Op) (h : ∀ c ∈ cs, ∀ r ∈ c.refs, r.loc.path ∉ op.paths) :
    hashesFs md5 fuzzy bps (step fs op) cs = hashesFs md5 fuzzy bps fs cs :=
  hash_function_of_current_contents md5 fuzzy bps cs _ _ (fun c hc r hr => view_step_other fs op _ (h c hc r hr))

/-! #### … and the hash does follow the contents -/

private theorem mkInfo_files (md5 : S → S) (fuzzy : Bool) (bps : Blueprints) (ph : Nat → Option S) (c : Comp)
    (i : Info) (hi : mkInfo md5 fuzzy bps ph c = some i) :
    ∃ E, fileEntries md5 fuzzy ph (sortRefs c.refs) = some E ∧ i.files = E.map es := by
  simp only [mkInfo] at hi
  cases hb : lookupBp bps (c.stage, blueprintName bps c) with
  | none => simp [hb] at hi
  | some exe =>
    simp only [hb, infoCore] at hi
    cases h1 : fileEntries md5 fuzzy ph (sortRefs c.refs) with
    | none => simp [h1] at hi
    | some E =>
      simp only [h1] at hi
      cases ha : replaceRefs fuzzy (tokens c.args) E ph (sortRefs c.refs) c.args with
      | none => simp [ha] at hi
      | some a =>
        simp only [ha, Option.some.injEq] at hi
        subst hi
        exact ⟨E, rfl, rfl⟩

/-- **The file entries follow the contents.**  A component consumes the file at the location of `r` through a
reference that reads contents (`Sensitive`: any file for the strong hash, a file not produced by a component
of the graph for the fuzzy hash).  Between two file systems that hold different contents `x ≠ y` there and
agree at the other paths the component refers to, the entry `md5 x:method` occurs strictly less often in the
hashed `files` — whatever the lengths of `x` and `y`, the times and inodes, and (strong hash) whatever happened
to the hashes of the producers. -/
theorem files_change_after_update (md5 : S → S) (hinj : Function.Injective md5) (fuzzy : Bool) (bps : Blueprints)
    (ph ph' : Nat → Option S) (hph : fuzzy = true → ph = ph') (c : SComp) (fs fs' : Fs) (r : SRef)
    (hr : r ∈ c.refs) (x y : S) (hx : view fs r.loc.path = some (some x)) (hy : view fs' r.loc.path = some (some y))
    (hxy : x ≠ y) (hcx : ':' ∉ md5 x) (hcy : ':' ∉ md5 y) (hs : Sensitive fuzzy r)
    (hag : ∀ r' ∈ c.refs, r'.loc.path ≠ r.loc.path → view fs r'.loc.path = view fs' r'.loc.path)
    (i i' : Info) (hi : mkInfo md5 fuzzy bps ph (c.resolve fs) = some i)
    (hi' : mkInfo md5 fuzzy bps ph' (c.resolve fs') = some i') :
    i'.files.count (md5 x ++ ':' :: r.method) < i.files.count (md5 x ++ ':' :: r.method) := by
  obtain ⟨E, hE, hf⟩ := mkInfo_files md5 fuzzy bps ph _ i hi
  obtain ⟨E', hE', hf'⟩ := mkInfo_files md5 fuzzy bps ph' _ i' hi'
  have hE'' : fileEntries md5 fuzzy ph (sortRefs (c.resolve fs').refs) = some E' := by
    cases fuzzy with
    | true => rw [hph rfl]; exact hE'
    | false => rw [fileEntries_strong_ph md5 ph ph']; exact hE'
  have e1 : (c.resolve fs).refs = c.refs.map (SRef.resolve fs) := rfl
  have e2 : (c.resolve fs').refs = c.refs.map (SRef.resolve fs') := rfl
  rw [e1, sortRefs_resolve] at hE
  rw [e2, sortRefs_resolve] at hE''
  rw [hf, hf', count_fileEntries md5 fuzzy ph _ _ E hE, count_fileEntries md5 fuzzy ph _ _ E' hE'',
    List.map_map, List.map_map]
  have hr' : r ∈ sortSRefs c.refs := (mem_sortSRefs r c.refs).mpr hr
  refine sum_map_lt (sortSRefs c.refs) _ _ ?_ r hr' ?_
  · intro a ha
    exact contrib_le md5 hinj fuzzy ph fs fs' r.loc.path x y r.method hcx hcy hx hy hxy a
      (hag a ((mem_sortSRefs a c.refs).mp ha))
  · have hnf := fileEntries_no_fail md5 fuzzy ph _ E hE (r.resolve fs) (List.mem_map.mpr ⟨r, hr', rfl⟩)
    exact contrib_lt md5 hinj fuzzy ph fs fs' x y hcx hcy r hx hy hxy hs hnf

/-- **Different contents, different hash — partial.**  In the situation of `files_change_after_update` the
strong (fuzzy) hashes computed on the two file systems differ — in particular after a file has been rewritten
in place with other bytes of the same length within the same second.  Partial for the reasons of
`same_hash_iff_same_work_partial`: the two infos are `SepFree` and their file entries have the shape the code
produces (both decidable; known finding C16-serialisation-no-separators otherwise). -/
theorem hash_changes_after_update_partial (md5 : S → S) (hinj : Function.Injective md5) (fuzzy : Bool)
    (bps : Blueprints) (hs₁ hs₂ : List (Option S)) (hph : fuzzy = true → hs₁ = hs₂) (c : SComp) (fs fs' : Fs)
    (r : SRef) (hr : r ∈ c.refs) (x y : S) (hx : view fs r.loc.path = some (some x))
    (hy : view fs' r.loc.path = some (some y)) (hxy : x ≠ y) (hcx : ':' ∉ md5 x) (hcy : ':' ∉ md5 y)
    (hs : Sensitive fuzzy r)
    (hag : ∀ r' ∈ c.refs, r'.loc.path ≠ r.loc.path → view fs r'.loc.path = view fs' r'.loc.path)
    (i i' : Info) (hi : mkInfo md5 fuzzy bps (getH hs₁) (c.resolve fs) = some i)
    (hi' : mkInfo md5 fuzzy bps (getH hs₂) (c.resolve fs') = some i') (h₁ : SepFree i) (h₂ : SepFree i')
    (g₁ : ∀ e ∈ i.files, goodEntry e = true) (g₂ : ∀ e ∈ i'.files, goodEntry e = true) :
    hashOne md5 fuzzy bps hs₁ (c.resolve fs) ≠ hashOne md5 fuzzy bps hs₂ (c.resolve fs') := by
  intro e
  have sw := (same_hash_iff_same_work_partial md5 hinj fuzzy bps bps hs₁ hs₂ _ _ i i' hi hi' h₁ h₂).mp e
  have hsort := same_work_same_entries i i' g₁ g₂ sw
  have hlt := files_change_after_update md5 hinj fuzzy bps (getH hs₁) (getH hs₂) (fun h => by rw [hph h]) c fs fs'
    r hr x y hx hy hxy hcx hcy hs hag i i' hi hi'
  rw [← count_sortStr _ i.files, ← count_sortStr _ i'.files, hsort] at hlt
  exact Nat.lt_irrefl _ hlt

private def exInput : SRef :=
  ⟨"input/a.txt:ref".toList, "input/a.txt:ref".toList, "ref".toList, [], .direct "/i/input/a.txt".toList⟩
private def exSComp : SComp :=
  { name := "c".toList, stage := 0, location := [], mtime := 0, replica := none, exe := "/bin/cat".toList,
    args := "-n input/a.txt:ref".toList, refs := [exInput], backend := .loc }
private def exFs : Fs := [("/i/input/a.txt".toList, .file "AAA".toList 1700000000 42)]

/-- non-vacuity of `hash_function_of_current_contents`: another time and inode, same contents -/
example : AgreeOn [exSComp] exFs [("/i/input/a.txt".toList, .file "AAA".toList 5 7)] := by
  intro c hc r hr
  simp only [List.mem_singleton] at hc; subst hc
  simp only [exSComp, List.mem_singleton] at hr; subst hr
  decide

/-- the class of the seeded cache defect, in the model: the input is rewritten in place with other bytes of the
same length, same modification time, same inode — the strong and the fuzzy hash both change, and writing the
old bytes back (at another time) restores them -/
example :
    let o := observeHistory (fun x => 'h' :: x) false exBps [exSComp] exFs
      [.write "/i/input/a.txt".toList "BBB".toList 1700000000 42, .reload,
       .write "/i/input/a.txt".toList "AAA".toList 1800000000 43]
    o[0]? ≠ o[1]? ∧ o[1]? = o[2]? ∧ o[0]? = o[3]? ∧ (o[0]?.bind (·[0]?)).isSome = true := by decide

/-- the hypotheses of `hash_changes_after_update_partial` are satisfiable (concrete injective stand-in for md5) -/
example : hashOne (fun x => 'h' :: x) false exBps [] (exSComp.resolve exFs) ≠
    hashOne (fun x => 'h' :: x) false exBps []
      (exSComp.resolve (step exFs (.write "/i/input/a.txt".toList "BBB".toList 1700000000 42))) :=
  hash_changes_after_update_partial (fun x => 'h' :: x) (fun a b h => by simpa using h) false exBps [] []
    (fun h => by cases h) exSComp exFs _ exInput (by simp [exSComp]) "AAA".toList "BBB".toList (by decide) (by decide)
    (by decide) (by decide) (by decide) (.inl rfl)
    (fun r' hr' hne => by simp only [exSComp, List.mem_singleton] at hr'; subst hr'; exact absurd rfl hne)
    ⟨none, "-n file:hAAA:ref".toList, "/bin/cat".toList, ["hAAA:ref".toList]⟩
    ⟨none, "-n file:hBBB:ref".toList, "/bin/cat".toList, ["hBBB:ref".toList]⟩ (by decide) (by decide) (by decide)
    (by decide) (by decide) (by decide)

/-! ### the consumed files are a multiset: how many files, not only which contents

`files` holds one `hash:method` entry per consumed file; equal entries (different files with the same contents
consumed through the same method) are repeated, and the serialisation sorts the list, so the hash is a function
of the **multiset** of entries.  (`Hash.hashOneSet`, the variant that builds a set, is refuted in `Witness.C16`.) -/

/-- **`SameWork` is about the multiset of consumed files**: for entries of the shape the code produces, the last
clause of `SameWork` says that the two lists of `hash:method` entries are permutations of each other — the same
entries, each the same number of times. -/
theorem same_work_iff_multiset (i₁ i₂ : Info) (g₁ : ∀ e ∈ i₁.files, goodEntry e = true)
    (g₂ : ∀ e ∈ i₂.files, goodEntry e = true) :
    SameWork i₁ i₂ ↔ i₁.image = i₂.image ∧ i₁.args = i₂.args ∧ i₁.exe = i₂.exe ∧ i₁.files.Perm i₂.files := by
  constructor
  · intro h
    exact ⟨h.1, h.2.1, h.2.2.1, perm_of_sortStr_eq _ _ (same_work_same_entries i₁ i₂ g₁ g₂ h)⟩
  · rintro ⟨a, b, c, d⟩
    exact ⟨a, b, c, by rw [sortStr_perm _ _ d]⟩

/-- **Same hash exactly when the same multiset of consumed files (and image, arguments, executable) — partial**
(`SepFree`, well-shaped entries: as `same_hash_iff_same_work_partial`). -/
theorem same_hash_iff_same_multiset_partial (md5 : S → S) (hinj : Function.Injective md5) (fuzzy : Bool)
    (bps₁ bps₂ : Blueprints) (hs₁ hs₂ : List (Option S)) (c₁ c₂ : Comp) (i₁ i₂ : Info)
    (hi₁ : mkInfo md5 fuzzy bps₁ (getH hs₁) c₁ = some i₁) (hi₂ : mkInfo md5 fuzzy bps₂ (getH hs₂) c₂ = some i₂)
    (h₁ : SepFree i₁) (h₂ : SepFree i₂) (g₁ : ∀ e ∈ i₁.files, goodEntry e = true)
    (g₂ : ∀ e ∈ i₂.files, goodEntry e = true) :
    hashOne md5 fuzzy bps₁ hs₁ c₁ = hashOne md5 fuzzy bps₂ hs₂ c₂ ↔
      i₁.image = i₂.image ∧ i₁.args = i₂.args ∧ i₁.exe = i₂.exe ∧ i₁.files.Perm i₂.files := by
  rw [same_hash_iff_same_work_partial md5 hinj fuzzy bps₁ bps₂ hs₁ hs₂ c₁ c₂ i₁ i₂ hi₁ hi₂ h₁ h₂]
  exact same_work_iff_multiset i₁ i₂ g₁ g₂

/-- **One entry per consumed file**: `files` has exactly as many entries as the component has references to
files that are there (directories contribute none; a missing file means no info at all) — whatever the contents,
equal or not. -/
theorem files_one_entry_per_consumed_file (md5 : S → S) (fuzzy : Bool) (bps : Blueprints) (ph : Nat → Option S)
    (c : Comp) (i : Info) (hi : mkInfo md5 fuzzy bps ph c = some i) :
    i.files.length = c.refs.countP Ref.isFile := by
  obtain ⟨E, hE, hf⟩ := mkInfo_files md5 fuzzy bps ph c i hi
  rw [hf, List.length_map, fileEntries_length md5 fuzzy ph _ E hE, (sortRefs_perm c.refs).countP_eq]

private theorem perm_sum_map {α : Type} (f : α → Nat) (l₁ l₂ : List α) (h : l₁.Perm l₂) :
    (l₁.map f).sum = (l₂.map f).sum := by
  induction h with
  | nil => rfl
  | cons x _ ih => simp [ih]
  | swap x y l => simp only [List.map_cons, List.sum_cons]; omega
  | trans _ _ ih₁ ih₂ => exact ih₁.trans ih₂

/-- **`files` is the multiset of the entries of the references**: the text `k` occurs in `files` as often as there
are references that contribute it (in whatever order the references are declared). -/
theorem files_multiset_of_references (md5 : S → S) (fuzzy : Bool) (bps : Blueprints) (ph : Nat → Option S)
    (c : Comp) (i : Info) (hi : mkInfo md5 fuzzy bps ph c = some i) (k : S) :
    i.files.count k = (c.refs.map (fun r => contrib k (entryOf md5 fuzzy ph r))).sum := by
  obtain ⟨E, hE, hf⟩ := mkInfo_files md5 fuzzy bps ph c i hi
  rw [hf, count_fileEntries md5 fuzzy ph k _ E hE]
  exact perm_sum_map _ _ _ (sortRefs_perm c.refs)

/-- **A different number of consumed files is different work — partial**: two components that consume a
different number of files never get the same hash, even if all the files have the same contents and are consumed
through the same method (k copies of a default configuration against k+1).  Partial as
`same_hash_iff_same_work_partial` (`SepFree`, well-shaped entries). -/
theorem different_number_of_files_different_hash_partial (md5 : S → S) (hinj : Function.Injective md5)
    (fuzzy : Bool) (bps₁ bps₂ : Blueprints) (hs₁ hs₂ : List (Option S)) (c₁ c₂ : Comp) (i₁ i₂ : Info)
    (hi₁ : mkInfo md5 fuzzy bps₁ (getH hs₁) c₁ = some i₁) (hi₂ : mkInfo md5 fuzzy bps₂ (getH hs₂) c₂ = some i₂)
    (h₁ : SepFree i₁) (h₂ : SepFree i₂) (g₁ : ∀ e ∈ i₁.files, goodEntry e = true)
    (g₂ : ∀ e ∈ i₂.files, goodEntry e = true)
    (hn : c₁.refs.countP Ref.isFile ≠ c₂.refs.countP Ref.isFile) :
    hashOne md5 fuzzy bps₁ hs₁ c₁ ≠ hashOne md5 fuzzy bps₂ hs₂ c₂ := by
  intro e
  have p := ((same_hash_iff_same_multiset_partial md5 hinj fuzzy bps₁ bps₂ hs₁ hs₂ c₁ c₂ i₁ i₂ hi₁ hi₂ h₁ h₂
    g₁ g₂).mp e).2.2.2
  have hl := p.length_eq
  rw [files_one_entry_per_consumed_file md5 fuzzy bps₁ _ c₁ i₁ hi₁,
    files_one_entry_per_consumed_file md5 fuzzy bps₂ _ c₂ i₂ hi₂] at hl
  exact hn hl

/-- … and so is a different number of files with one particular content and method: if the entry `k` occurs a
different number of times, the hashes differ (`[X, X, Y]` against `[X, Y, Y]`). -/
theorem different_multiplicity_different_hash_partial (md5 : S → S) (hinj : Function.Injective md5)
    (fuzzy : Bool) (bps₁ bps₂ : Blueprints) (hs₁ hs₂ : List (Option S)) (c₁ c₂ : Comp) (i₁ i₂ : Info)
    (hi₁ : mkInfo md5 fuzzy bps₁ (getH hs₁) c₁ = some i₁) (hi₂ : mkInfo md5 fuzzy bps₂ (getH hs₂) c₂ = some i₂)
    (h₁ : SepFree i₁) (h₂ : SepFree i₂) (g₁ : ∀ e ∈ i₁.files, goodEntry e = true)
    (g₂ : ∀ e ∈ i₂.files, goodEntry e = true) (k : S) (hn : i₁.files.count k ≠ i₂.files.count k) :
    hashOne md5 fuzzy bps₁ hs₁ c₁ ≠ hashOne md5 fuzzy bps₂ hs₂ c₂ := by
  intro e
  have p := ((same_hash_iff_same_multiset_partial md5 hinj fuzzy bps₁ bps₂ hs₁ hs₂ c₁ c₂ i₁ i₂ hi₁ hi₂ h₁ h₂
    g₁ g₂).mp e).2.2.2
  exact hn (p.count_eq k)

/-- the set-based variant forgets the multiplicity for **every** info: an entry that is already there adds nothing -/
theorem set_based_files_lose_multiplicity (e : S) (l : List S) (h : e ∈ l) : dedupStr (e :: l) = dedupStr l := by
  simp [dedupStr, h]

/-- two copies of a configuration are not one copy; the order of the entries does not matter -/
example : ¬ SameWork ⟨none, [], "x".toList, ["0a:copy".toList, "0a:copy".toList]⟩
    ⟨none, [], "x".toList, ["0a:copy".toList]⟩ := by decide
example : ¬ SameWork ⟨none, [], "x".toList, ["0a:copy".toList, "0a:copy".toList, "ff:copy".toList]⟩
    ⟨none, [], "x".toList, ["0a:copy".toList, "ff:copy".toList, "ff:copy".toList]⟩ := by decide
example : SameWork ⟨none, [], "x".toList, ["0a:copy".toList, "ff:copy".toList, "0a:copy".toList]⟩
    ⟨none, [], "x".toList, ["ff:copy".toList, "0a:copy".toList, "0a:copy".toList]⟩ := by decide

private def exCfg (name : String) : Ref :=
  ⟨("data/" ++ name ++ ":copy").toList, ("data/" ++ name ++ ":copy").toList, "copy".toList, [],
    .file (some "AAA".toList)⟩
private def exMerge (refs : List Ref) : Comp :=
  { name := "c".toList, stage := 0, location := [], mtime := 0, replica := none, exe := "/bin/cat".toList,
    args := "-n".toList, refs := refs, backend := .loc }

/-- non-vacuity of `different_number_of_files_different_hash_partial`: `first.cfg` and `second.cfg` with the same
contents, both copied, against `first.cfg` alone (concrete injective stand-in for md5) -/
example : hashOne (fun x => 'h' :: x) false exBps [] (exMerge [exCfg "first.cfg", exCfg "second.cfg"]) ≠
    hashOne (fun x => 'h' :: x) false exBps [] (exMerge [exCfg "first.cfg"]) :=
  different_number_of_files_different_hash_partial (fun x => 'h' :: x) (fun a b h => by simpa using h) false
    exBps exBps [] [] _ _
    ⟨none, "-n".toList, "/bin/cat".toList, ["hAAA:copy".toList, "hAAA:copy".toList]⟩
    ⟨none, "-n".toList, "/bin/cat".toList, ["hAAA:copy".toList]⟩
    (by decide) (by decide) (by decide) (by decide) (by decide) (by decide) (by decide)

/-! ### a reference is one consumption

`info_files` is keyed by the absolute reference: `Comp.distinctRefs` (`hashesD` is what the harness compares the
real hashes with).  Every theorem above holds for every component, in particular for `c.distinctRefs`. -/

theorem distinctRefs_nodup (c : Comp) : (c.distinctRefs.refs.map (·.abs)).Nodup := dedupAbs_nodup c.refs

/-- references with pairwise different spellings: every one of them counts -/
theorem distinctRefs_of_nodup (c : Comp) (h : (c.refs.map (·.abs)).Nodup) : c.distinctRefs = c := by
  simp [Comp.distinctRefs, dedupAbs_id c.refs h]

/-- **Stating a reference once more is not more work**: a further reference with the absolute spelling of one
that is already there (the same reference twice, or the relative and the absolute spelling of a reference to a
producer) changes neither hash. -/
theorem restated_reference_same_hash (md5 : S → S) (fuzzy : Bool) (bps : Blueprints) (hs : List (Option S))
    (c : Comp) (r : Ref) (h : ∃ r' ∈ c.refs, r'.abs = r.abs) :
    hashOne md5 fuzzy bps hs ({ c with refs := r :: c.refs } : Comp).distinctRefs =
      hashOne md5 fuzzy bps hs c.distinctRefs := by
  simp [Comp.distinctRefs, dedupAbs_restated r c.refs h]

/-- no hash while a referenced input is missing, with repeated references (every occurrence of the spelling
sees the same file system) -/
theorem no_hash_when_input_missing_distinct (md5 : S → S) (fuzzy : Bool) (bps : Blueprints)
    (hs : List (Option S)) (c : Comp) (r : Ref) (hr : r ∈ c.refs)
    (h : ∀ r' ∈ c.refs, r'.abs = r.abs → r'.Missing) : hashOne md5 fuzzy bps hs c.distinctRefs = none := by
  obtain ⟨r', hr', he⟩ := dedupAbs_covers r c.refs hr
  exact no_hash_when_input_missing md5 fuzzy bps hs c.distinctRefs r' hr'
    (h r' (mem_dedupAbs r' c.refs hr') he)

private theorem distinctRefs_withProduced (f : S → S) (c : Comp) :
    (c.withProduced f).distinctRefs = c.distinctRefs.withProduced f := by
  simp [Comp.distinctRefs, Comp.withProduced, dedupAbs_map (Ref.withProduced f) (withProduced_abs f)]

/-- `fuzzy_ignores_produced_contents` for the hashes the harness observes -/
theorem fuzzy_ignores_produced_contents_distinct (md5 : S → S) (bps : Blueprints) (f : S → S) (cs : List Comp) :
    hashesD md5 true bps (cs.map (Comp.withProduced f)) = hashesD md5 true bps cs := by
  unfold hashesD
  rw [← fuzzy_ignores_produced_contents md5 bps f (cs.map Comp.distinctRefs)]
  simp [List.map_map, Function.comp_def, distinctRefs_withProduced]

/-- non-vacuity: `data/first.cfg:copy` stated twice is hashed as stated once, and differently from two files -/
example : hashOne (fun x => 'h' :: x) false exBps [] (exMerge [exCfg "first.cfg", exCfg "first.cfg"]).distinctRefs =
    hashOne (fun x => 'h' :: x) false exBps [] (exMerge [exCfg "first.cfg"]).distinctRefs ∧
    hashOne (fun x => 'h' :: x) false exBps [] (exMerge [exCfg "first.cfg", exCfg "second.cfg"]).distinctRefs ≠
    hashOne (fun x => 'h' :: x) false exBps [] (exMerge [exCfg "first.cfg"]).distinctRefs := by decide

/-! ### chains of producers: no hash down the chain from a missing input

"No hash is produced while a referenced input is missing … for every chain of producers": the hash of a
component *stands on* the hash of a producer when it names the producer's working directory in its arguments
(the reference is replaced by `producer:<hash>`), and — for the fuzzy hash — when it consumes a file of the
producer (`fuzzy#<fuzzy hash of the producer>#<file>`).  A component whose producer has no hash then has no
hash either, by induction along any chain. -/

/-- the hash (`fuzzy`: the fuzzy hash) of `c` stands on the hash of producer `p` through reference `r` -/
inductive StandsOn (fuzzy : Bool) (c : Comp) (r : Ref) (p : Nat) : Prop
  /-- the working directory of `p`, named in the arguments (no other reference with the same absolute
  spelling points to a file) -/
  | dir : r.target = .prodDir p → ((tokens c.args).contains r.abs = true ∨ (tokens c.args).contains r.rel = true) →
      (∀ r' ∈ c.refs, r'.abs = r.abs → r'.target = .prodDir p) → StandsOn fuzzy c r p
  /-- a file of `p` that is there, fuzzy hash -/
  | file (content : S) : fuzzy = true → r.target = .prodFile p (some content) → StandsOn fuzzy c r p

private theorem fileEntries_fail (md5 : S → S) (fuzzy : Bool) (ph : Nat → Option S) (l : List Ref)
    (r : Ref) (hr : r ∈ l) (h : entryOf md5 fuzzy ph r = .fail) : fileEntries md5 fuzzy ph l = none := by
  induction l with
  | nil => cases hr
  | cons x xs ih =>
    simp only [fileEntries]
    rcases List.mem_cons.mp hr with rfl | hx
    · simp [h]
    · split
      · rfl
      · exact ih hx
      · simp [ih hx]

private theorem fileEntries_abs (md5 : S → S) (fuzzy : Bool) (ph : Nat → Option S) (l : List Ref)
    (E : List FileEntry) (h : fileEntries md5 fuzzy ph l = some E) :
    ∀ e ∈ E, ∃ r ∈ l, entryOf md5 fuzzy ph r = .entry e ∧ e.abs = r.abs := by
  induction l generalizing E with
  | nil => simp only [fileEntries, Option.some.injEq] at h; subst h; simp
  | cons x xs ih =>
    simp only [fileEntries] at h
    cases he : entryOf md5 fuzzy ph x with
    | fail => simp [he] at h
    | skip =>
      simp only [he] at h
      intro e hmem
      obtain ⟨r, hr, h1, h2⟩ := ih E h e hmem
      exact ⟨r, List.mem_cons_of_mem _ hr, h1, h2⟩
    | entry e0 =>
      simp only [he] at h
      cases hxs : fileEntries md5 fuzzy ph xs with
      | none => simp [hxs] at h
      | some E' =>
        simp only [hxs, Option.map_some, Option.some.injEq] at h
        subst h
        intro e hmem
        rcases List.mem_cons.mp hmem with rfl | hmem
        · refine ⟨x, List.mem_cons_self .., he, ?_⟩
          unfold entryOf at he
          split at he <;> (try split at he) <;> (try split at he) <;> (try split at he) <;>
            first | (cases he; done) | (injection he with he; subst he; rfl)
        · obtain ⟨r, hr, h1, h2⟩ := ih E' hxs e hmem
          exact ⟨r, List.mem_cons_of_mem _ hr, h1, h2⟩

private theorem replaceRefs_fail (fuzzy : Bool) (toks : List S) (es : List FileEntry) (ph : Nat → Option S)
    (l : List Ref) (r : Ref) (hr : r ∈ l) (htok : toks.contains r.abs = true ∨ toks.contains r.rel = true)
    (hrep : replacementOf fuzzy es ph r = none) (a : S) : replaceRefs fuzzy toks es ph l a = none := by
  induction l generalizing a with
  | nil => cases hr
  | cons x xs ih =>
    simp only [replaceRefs]
    rcases List.mem_cons.mp hr with rfl | hx
    · rcases htok with ht | ht
      · have ht' : r.abs ∈ toks := by simpa using ht
        simp [ht', hrep]
      · have ht' : r.rel ∈ toks := by simpa using ht
        by_cases ha : r.abs ∈ toks <;> simp [ha, ht', hrep]
    · split
      · exact ih hx a
      · split
        · rfl
        · exact ih hx a
        · exact ih hx _

/-- **No hash without the producer's hash**: a component whose hash stands on the hash of a producer that has
none has no hash (strong: working directory of the producer named in the arguments; fuzzy: also any file of
the producer). -/
theorem no_hash_when_producer_has_no_hash (md5 : S → S) (fuzzy : Bool) (bps : Blueprints) (hs : List (Option S))
    (c : Comp) (r : Ref) (p : Nat) (hr : r ∈ c.refs) (hst : StandsOn fuzzy c r p) (hp : getH hs p = none) :
    hashOne md5 fuzzy bps hs c = none := by
  have hrs : r ∈ sortRefs c.refs := (mem_sortRefs r c.refs).mpr hr
  simp only [hashOne, mkInfo]
  split
  · rfl
  · simp only [infoCore]
    cases hst with
    | file content hf ht =>
      subst hf
      have : entryOf md5 true (getH hs) r = .fail := by simp [entryOf, ht, hp]
      simp [fileEntries_fail md5 true _ _ r hrs this]
    | dir ht htok hsame =>
      cases hE : fileEntries md5 fuzzy (getH hs) (sortRefs c.refs) with
      | none => simp
      | some E =>
        have hfind : E.find? (fun e => e.abs == r.abs) = none := by
          rw [List.find?_eq_none]
          intro e he heq
          obtain ⟨r', hr', hent, habs⟩ := fileEntries_abs md5 fuzzy _ _ E hE e he
          have h1 : r'.abs = r.abs := by rw [← habs]; simpa using heq
          have h2 := hsame r' ((mem_sortRefs r' c.refs).mp hr') h1
          simp only [entryOf, h2] at hent
          split at hent <;> cases hent
        have hrep : replacementOf fuzzy E (getH hs) r = none := by
          simp [replacementOf, hfind, ht, Target.producer?, hp]
        simp [replaceRefs_fail fuzzy _ E _ _ r hrs htok hrep]

/-- a component cannot have a (strong / fuzzy) hash: a file it consumes is missing, or its hash stands on the
hash of a producer that cannot have one — along a chain of producers of any length -/
inductive Unhashable (fuzzy : Bool) (cs : List Comp) : Nat → Prop
  | missing (k : Nat) (c : Comp) (r : Ref) : cs[k]? = some c → r ∈ c.refs → r.Missing → Unhashable fuzzy cs k
  | chain (k p : Nat) (c : Comp) (r : Ref) : cs[k]? = some c → r ∈ c.refs → StandsOn fuzzy c r p →
      Unhashable fuzzy cs p → Unhashable fuzzy cs k

/-- **No hash down the chain** (every chain of producers): in the hashes of a whole graph, every component
that is `Unhashable` — a missing input anywhere up a chain of hash-carrying references — has no hash. -/
theorem no_hash_down_the_chain (md5 : S → S) (fuzzy : Bool) (bps : Blueprints) (cs : List Comp) (k : Nat)
    (h : Unhashable fuzzy cs k) : (hashes md5 fuzzy bps cs)[k]? = some none := by
  induction h with
  | missing k c r hk hr hm =>
    rw [hashes_at md5 fuzzy bps cs k c hk, no_hash_when_input_missing md5 fuzzy bps _ c r hr hm]
  | chain k p c r hk hr hst _ ih =>
    rw [hashes_at md5 fuzzy bps cs k c hk]
    congr 1
    apply no_hash_when_producer_has_no_hash md5 fuzzy bps _ c r p hr hst
    rw [getH_take]
    split
    · simp [getH_eq, ih]
    · rfl

private def exGen : Comp :=
  { name := "gen".toList, stage := 0, location := [], mtime := 0, replica := none, exe := "/bin/echo".toList,
    args := "hello".toList, refs := [], backend := .loc }
private def exMiddle (content : Option S) : Comp :=
  { name := "middle".toList, stage := 0, location := [], mtime := 0, replica := none, exe := "/bin/cat".toList,
    args := "gen/out.txt:ref".toList,
    refs := [⟨"stage0.gen/out.txt:ref".toList, "gen/out.txt:ref".toList, "ref".toList, "out.txt".toList,
              .prodFile 0 content⟩], backend := .loc }
private def exLast : Comp :=
  { name := "consumer".toList, stage := 0, location := [], mtime := 0, replica := none, exe := "/bin/ls".toList,
    args := "-l stage0.middle:ref".toList,
    refs := [⟨"stage0.middle:ref".toList, "middle:ref".toList, "ref".toList, [], .prodDir 1⟩], backend := .loc }
private def exChainBps : Blueprints :=
  [((0, "gen".toList), "/bin/echo".toList), ((0, "middle".toList), "/bin/cat".toList),
   ((0, "consumer".toList), "/bin/ls".toList)]

/-- non-vacuity: `consumer → directory of middle → file of gen`; with the file of `gen` missing the consumer is
`Unhashable` (and has no hash), with the file there all three have a hash -/
example : Unhashable false [exGen, exMiddle none, exLast] 2 :=
  .chain 2 1 exLast _ rfl (List.mem_cons_self ..) (.dir rfl (by decide) (by decide))
    (.missing 1 (exMiddle none) _ rfl (List.mem_cons_self ..) (.inr ⟨0, rfl⟩))

example : (hashes (fun x => 'h' :: x) false exChainBps [exGen, exMiddle none, exLast]).map Option.isSome =
    [true, false, false] := by decide

example : (hashes (fun x => 'h' :: x) false exChainBps [exGen, exMiddle (some "AAA".toList), exLast]).map
    Option.isSome = [true, true, true] := by decide

/-! ### the producer cone, and sessions that remember hashes (`Model/HashCache.lean`)

`ComponentSpecification` remembers the first hash it could compute.  The theorems below say when that is
harmless — for every session (any interleaving of file changes, evaluations, resets and reads):

* the hash of a component depends only on the files the components of its **producer cone** refer to;
* a session is `Disciplined` when no file changes under the producer cone of a hash that is remembered at that
  moment (the real Controller: a hash is asked for only after every producer up the chain has finished);
* in a disciplined session every remembered hash — so every hash that is read — is the hash of the contents
  **at that moment** (`session_hashes_are_current`, `session_reads_are_current`);
* `Witness.C16.early_request_freezes_stale_hash`: without the discipline (the hash of a waiting consumer is asked
  for while a producer is half-way through writing its output) the remembered hash is not that of the final
  contents. -/

/-- the hashes at the positions of a producer-closed set `K` are the same on two file systems that agree on
the paths the components of `K` refer to — whatever happens to every other path (the outputs that components
outside the cone are still writing) -/
theorem hash_depends_only_on_producer_cone (md5 : S → S) (fuzzy : Bool) (bps : Blueprints) (cs : List SComp)
    (fs₁ fs₂ : Fs) (K : Nat → Prop)
    (hclosed : ∀ k, K k → ∀ c, cs[k]? = some c → ∀ r ∈ c.refs, ∀ p, r.loc.producer? = some p → K p)
    (hagree : ∀ k, K k → ∀ c, cs[k]? = some c → ∀ r ∈ c.refs, view fs₁ r.loc.path = view fs₂ r.loc.path) :
    ∀ k, K k → (hashesFs md5 fuzzy bps fs₁ cs)[k]? = (hashesFs md5 fuzzy bps fs₂ cs)[k]? := by
  unfold hashesFs
  apply hashes_congr_on md5 fuzzy bps _ _ K (by simp)
  intro k hk
  simp only [List.getElem?_map]
  cases hc : cs[k]? with
  | none => simp
  | some c =>
    have heq : c.resolve fs₁ = c.resolve fs₂ := resolve_comp_congr fs₁ fs₂ c (hagree k hk c hc)
    refine ⟨by simp [heq], ?_⟩
    intro c' hc' r' hr' p hp
    simp only [Option.map_some, Option.some.injEq] at hc'
    subst hc'
    obtain ⟨r, hr, rfl⟩ := mem_resolve_refs fs₁ c r' hr'
    rw [resolve_producer] at hp
    exact hclosed k hk c hc r hr p hp

/-- every remembered hash is the hash of the current contents -/
def Fresh (md5 : S → S) (bps : Blueprints) (cs : List SComp) (s : Session) : Prop :=
  ∀ fuzzy j h, getH (s.cache fuzzy) j = some h → getH (hashesFs md5 fuzzy bps s.fs cs) j = some h

/-- producers come before their consumers -/
def WellOrdered (cs : List SComp) : Prop :=
  ∀ (j : Nat) (c : SComp), cs[j]? = some c → ∀ r ∈ c.refs, ∀ p, r.loc.producer? = some p → p < j

/-- the file system may change by `op` now: some producer-closed set of components contains every component
with a remembered hash, and `op` touches no path a component of the set refers to -/
def FsOk (cs : List SComp) (s : Session) (op : Op) : Prop :=
  ∃ K : Nat → Prop,
    (∀ k, K k → ∀ c, cs[k]? = some c → ∀ r ∈ c.refs, ∀ p, r.loc.producer? = some p → K p) ∧
    (∀ fuzzy j h, getH (s.cache fuzzy) j = some h → K j) ∧
    (∀ k, K k → ∀ c, cs[k]? = some c → ∀ r ∈ c.refs, r.loc.path ∉ op.paths)

/-- the discipline: every change of the file system is `FsOk` at its moment (evaluations, reads and resets are
free) -/
def Disciplined (md5 : S → S) (bps : Blueprints) (cs : List SComp) : Session → List SOp → Prop
  | _, [] => True
  | s, e :: rest =>
    (match e with
      | .fs op => FsOk cs s op
      | _ => True) ∧ Disciplined md5 bps cs (stepS md5 bps cs s e) rest

private theorem cache_setCache (s : Session) (f f' : Bool) (c : List (Option S)) :
    (s.setCache f c).cache f' = if f' = f then c else s.cache f' := by
  cases f <;> cases f' <;> simp [Session.setCache, Session.cache]

private theorem fs_setCache (s : Session) (f : Bool) (c : List (Option S)) : (s.setCache f c).fs = s.fs := by
  cases f <;> simp [Session.setCache]

private theorem getH_hashesFs_at (md5 : S → S) (fuzzy : Bool) (bps : Blueprints) (cs : List SComp) (fs : Fs)
    (j : Nat) (c : SComp) (hc : cs[j]? = some c) :
    getH (hashesFs md5 fuzzy bps fs cs) j =
      hashOne md5 fuzzy bps ((hashesFs md5 fuzzy bps fs cs).take j) (c.resolve fs) := by
  have : (cs.map (SComp.resolve fs))[j]? = some (c.resolve fs) := by simp [hc]
  rw [getH_eq]
  unfold hashesFs
  rw [hashes_at md5 fuzzy bps _ j _ this]
  rfl

/-- evaluating a hash — of any component, at any moment, whatever is remembered for its producers — keeps
every remembered hash current: a hash that can be computed from the remembered hashes of the producers is the
hash the whole graph gives (`hashOne_mono`) -/
theorem compute_preserves_fresh (md5 : S → S) (bps : Blueprints) (cs : List SComp) (s : Session)
    (hwo : WellOrdered cs) (hf : Fresh md5 bps cs s) (fuzzy : Bool) (j : Nat) :
    Fresh md5 bps cs (stepS md5 bps cs s (.compute fuzzy j)) := by
  intro f' k h hg
  simp only [stepS, cache_setCache, fs_setCache] at hg ⊢
  split at hg
  · rename_i hff
    subst hff
    unfold computeAt at hg
    cases hc : cs[j]? with
    | none => simp only [hc] at hg; exact hf _ k h hg
    | some c =>
      simp only [hc] at hg
      cases hj : getH (s.cache f') j with
      | some v => simp only [hj] at hg; exact hf _ k h hg
      | none =>
        simp only [hj] at hg
        rcases getH_set _ j k _ h hg with ⟨rfl, hv⟩ | hold
        · rw [getH_hashesFs_at md5 f' bps cs s.fs k c hc]
          apply hashOne_mono md5 f' bps _ _ _ h _ hv
          intro r' hr' p hp h' hh'
          obtain ⟨r, hr, rfl⟩ := mem_resolve_refs s.fs c r' hr'
          rw [resolve_producer] at hp
          have hpk : p < k := hwo k c hc r hr p hp
          rw [getH_take, if_pos hpk]
          exact hf _ p h' hh'
        · exact hf _ k h hold
  · exact hf _ k h hg

theorem reset_preserves_fresh (md5 : S → S) (bps : Blueprints) (cs : List SComp) (s : Session)
    (hf : Fresh md5 bps cs s) (j : Nat) : Fresh md5 bps cs (stepS md5 bps cs s (.reset j)) := by
  intro f' k h hg
  have : getH (s.cache f') k = some h := by
    cases f' <;> simp only [stepS, Session.cache] at hg <;>
      (rcases getH_set _ j k none h (by simpa using hg) with ⟨_, hv⟩ | hold
       · cases hv
       · simpa [Session.cache] using hold)
  exact hf f' k h this

/-- a change of the file system outside the producer cones of the remembered hashes keeps them current -/
theorem fsop_preserves_fresh (md5 : S → S) (bps : Blueprints) (cs : List SComp) (s : Session)
    (hf : Fresh md5 bps cs s) (op : Op) (hok : FsOk cs s op) :
    Fresh md5 bps cs (stepS md5 bps cs s (.fs op)) := by
  obtain ⟨K, hclosed, hcached, hframe⟩ := hok
  intro f' k h hg
  have hg' : getH (s.cache f') k = some h := by cases f' <;> simpa [stepS, Session.cache] using hg
  have hk : K k := hcached f' k h hg'
  have := hash_depends_only_on_producer_cone md5 f' bps cs (step s.fs op) s.fs K hclosed
    (fun k hk c hc r hr => view_step_other s.fs op _ (hframe k hk c hc r hr)) k hk
  simp only [stepS, getH_eq, this]
  rw [← getH_eq]
  exact hf f' k h hg'

/-- **Remembered hashes stay current.**  In every disciplined session — any interleaving of file changes,
evaluations of the hash of any component in any order, resets and reads — that starts with current hashes (for
instance with nothing remembered), every remembered hash is, at the end, the hash of the contents at the end. -/
theorem session_hashes_are_current (md5 : S → S) (bps : Blueprints) (cs : List SComp) (hwo : WellOrdered cs)
    (s : Session) (evs : List SOp) (hf : Fresh md5 bps cs s) (hd : Disciplined md5 bps cs s evs) :
    Fresh md5 bps cs (runS md5 bps cs s evs) := by
  induction evs generalizing s with
  | nil => exact hf
  | cons e rest ih =>
    obtain ⟨he, hrest⟩ := hd
    simp only [runS, List.foldl_cons]
    apply ih _ _ hrest
    cases e with
    | fs op => exact fsop_preserves_fresh md5 bps cs s hf op he
    | compute fuzzy j => exact compute_preserves_fresh md5 bps cs s hwo hf fuzzy j
    | reset j => exact reset_preserves_fresh md5 bps cs s hf j
    | get fuzzy j => exact hf

private theorem disciplined_prefix (md5 : S → S) (bps : Blueprints) (cs : List SComp) (s : Session)
    (pre post : List SOp) (h : Disciplined md5 bps cs s (pre ++ post)) : Disciplined md5 bps cs s pre := by
  induction pre generalizing s with
  | nil => trivial
  | cons e rest ih => exact ⟨h.1, ih _ h.2⟩

private theorem runS_append (md5 : S → S) (bps : Blueprints) (cs : List SComp) (s : Session) (a b : List SOp) :
    runS md5 bps cs s (a ++ b) = runS md5 bps cs (runS md5 bps cs s a) b := by
  simp [runS, List.foldl_append]

/-- **Every hash that is read is the hash of the contents at that moment**: in a disciplined session that
starts with nothing remembered, whatever an evaluation leaves in the cache and whatever a reader gets
(`answerOf`), at any point of the session, is the hash `hashesFs` gives on the file system of that moment. -/
theorem session_reads_are_current (md5 : S → S) (bps : Blueprints) (cs : List SComp) (hwo : WellOrdered cs)
    (fs : Fs) (pre post : List SOp) (fuzzy : Bool) (j : Nat) (h : S) (e : SOp)
    (he : e = .get fuzzy j ∨ e = .compute fuzzy j)
    (hd : Disciplined md5 bps cs (Session.new fs cs.length) (pre ++ e :: post))
    (ha : answerOf (runS md5 bps cs (Session.new fs cs.length) (pre ++ [e])) e = some h) :
    getH (hashesFs md5 fuzzy bps (runS md5 bps cs (Session.new fs cs.length) (pre ++ [e])).fs cs) j = some h := by
  have hnew : Fresh md5 bps cs (Session.new fs cs.length) := by
    intro f k h' hg
    cases f <;> simp [Session.new, Session.cache, getH_eq, List.getElem?_replicate] at hg <;>
      (split at hg <;> simp at hg)
  have hd' : Disciplined md5 bps cs (Session.new fs cs.length) (pre ++ [e]) := by
    have : pre ++ e :: post = (pre ++ [e]) ++ post := by simp
    exact disciplined_prefix md5 bps cs _ _ post (this ▸ hd)
  have hfr := session_hashes_are_current md5 bps cs hwo _ _ hnew hd'
  rcases he with rfl | rfl <;> exact hfr fuzzy j h (by simpa [answerOf] using ha)

/-- after `memoization_reset()` of every component (or on a new experiment object) nothing is remembered: the
next evaluations are those of the current files, whatever happened before -/
theorem new_session_is_fresh (md5 : S → S) (bps : Blueprints) (cs : List SComp) (fs : Fs) (n : Nat) :
    Fresh md5 bps cs (Session.new fs n) := by
  intro f k h' hg
  cases f <;> simp [Session.new, Session.cache, getH_eq, List.getElem?_replicate] at hg <;>
    (split at hg <;> simp at hg)

/-! #### the checker the driver runs on recorded sessions is sound -/

private theorem touched_eq_paths (op : Op) : op.touched = op.paths := by cases op <;> rfl

private theorem closedB_sound (cs : List SComp) (K : List Nat) (h : closedB cs K = true) :
    ∀ k, k ∈ K → ∀ c, cs[k]? = some c → ∀ r ∈ c.refs, ∀ p, r.loc.producer? = some p → p ∈ K := by
  intro k hk c hc r hr p hp
  simp only [closedB, List.all_eq_true] at h
  have := h k hk
  simp only [hc, List.all_eq_true] at this
  simpa using this p (mem_producersOf c r p hr hp)

private theorem frameB_sound (cs : List SComp) (K : List Nat) (op : Op) (h : frameB cs K op = true) :
    ∀ k, k ∈ K → ∀ c, cs[k]? = some c → ∀ r ∈ c.refs, r.loc.path ∉ op.paths := by
  intro k hk c hc r hr
  simp only [frameB, List.all_eq_true] at h
  have := h k hk
  simp only [hc, List.all_eq_true] at this
  have := this r hr
  rw [touched_eq_paths] at this
  simpa using this

theorem fsOkB_sound (cs : List SComp) (s : Session) (op : Op) (h : fsOkB cs s op = true) : FsOk cs s op := by
  simp only [fsOkB, Bool.and_eq_true, List.all_eq_true] at h
  obtain ⟨⟨hc, hcl⟩, hfr⟩ := h
  refine ⟨fun k => k ∈ coneOf cs cs.length (cachedIdx s.strong ++ cachedIdx s.fuzzy), closedB_sound cs _ hcl, ?_,
    frameB_sound cs _ op hfr⟩
  intro fuzzy j h' hg
  have hmem : j ∈ cachedIdx s.strong ++ cachedIdx s.fuzzy := by
    cases fuzzy
    · exact List.mem_append_left _ (mem_cachedIdx _ j h' (by simpa [Session.cache] using hg))
    · exact List.mem_append_right _ (mem_cachedIdx _ j h' (by simpa [Session.cache] using hg))
  simpa using hc j hmem

/-- a session the checker accepts is `Disciplined` -/
theorem disciplinedB_sound (md5 : S → S) (bps : Blueprints) (cs : List SComp) (s : Session) (evs : List SOp)
    (h : disciplinedB md5 bps cs s evs = true) : Disciplined md5 bps cs s evs := by
  induction evs generalizing s with
  | nil => trivial
  | cons e rest ih =>
    simp only [disciplinedB, Bool.and_eq_true] at h
    refine ⟨?_, ih _ h.2⟩
    cases e with
    | fs op => exact fsOkB_sound cs s op h.1
    | compute fuzzy j => trivial
    | reset j => trivial
    | get fuzzy j => trivial

theorem wellOrderedB_sound (cs : List SComp) (h : wellOrderedB cs = true) : WellOrdered cs := by
  intro j c hc r hr p hp
  simp only [wellOrderedB, List.all_eq_true, List.mem_range] at h
  have hj : j < cs.length := by
    rcases Nat.lt_or_ge j cs.length with h' | h'
    · exact h'
    · rw [List.getElem?_eq_none h'] at hc; cases hc
  have := h j hj
  simp only [hc, List.all_eq_true] at this
  simpa using this p (mem_producersOf c r p hr hp)

/-- … so for a recorded session that the driver reports as disciplined and well ordered, every hash that was
read is the hash of the contents at that moment -/
theorem checked_session_reads_are_current (md5 : S → S) (bps : Blueprints) (cs : List SComp) (fs : Fs)
    (evs : List SOp) (hwo : wellOrderedB cs = true)
    (hd : disciplinedB md5 bps cs (Session.new fs cs.length) evs = true) :
    Fresh md5 bps cs (runS md5 bps cs (Session.new fs cs.length) evs) :=
  session_hashes_are_current md5 bps cs (wellOrderedB_sound cs hwo) _ evs
    (new_session_is_fresh md5 bps cs fs cs.length) (disciplinedB_sound md5 bps cs _ evs hd)

private def exProducer : SComp :=
  { name := "gen".toList, stage := 0, location := [], mtime := 0, replica := none, exe := "/bin/echo".toList,
    args := "hello".toList, refs := [], backend := .loc }
private def exWaiting : SComp :=
  { name := "use".toList, stage := 0, location := [], mtime := 0, replica := none, exe := "/bin/cat".toList,
    args := "gen/out.txt:ref".toList,
    refs := [⟨"stage0.gen/out.txt:ref".toList, "gen/out.txt:ref".toList, "ref".toList, "out.txt".toList,
              .produced 0 "/i/gen/out.txt".toList⟩], backend := .loc }
private def exSessionBps : Blueprints := [((0, "gen".toList), "/bin/echo".toList), ((0, "use".toList), "/bin/cat".toList)]
/-- the hash of the producer is remembered, the producer writes its output in two pieces, then the hash of the
consumer is evaluated and read -/
private def exSession : List SOp :=
  [.compute false 0, .fs (.write "/i/gen/out.txt".toList "par".toList 1 1), .get false 1,
   .fs (.write "/i/gen/out.txt".toList "partial".toList 2 1), .compute false 1, .compute true 0, .compute true 1, .get false 1]

/-- non-vacuity: a session with remembered hashes *and* file changes that is `Disciplined` and `WellOrdered`;
the hash that is read at its end exists -/
example : Disciplined (fun x => 'h' :: x) exSessionBps [exProducer, exWaiting] (Session.new [] 2) exSession :=
  disciplinedB_sound _ _ _ _ _ (by decide)

example : WellOrdered [exProducer, exWaiting] := wellOrderedB_sound _ (by decide)

example : (answers (fun x => 'h' :: x) exSessionBps [exProducer, exWaiting] (Session.new [] 2) exSession).map
    Option.isSome = [true, false, false, false, true, true, true, true] := by decide

/-! ### the source of the executable: the author's specification, not the validated live configuration

`Experiment.validateExperiment(checkExecutables=True)` (what `elaunch` runs before anything executes) rewrites the
executables of the live configuration into resolved absolute paths — paths that may lie inside the instance.
`Model/HashExe.lean` has both sources (`Conf.unrep`, `Conf.live`), the rewrite (`Conf.validate`, whatever the
operating system answers: `Probe`) and histories of file changes and validations (`cstates`). -/

/-- validation rewrites the live configuration only -/
theorem validation_keeps_specification (base : S) (probes : List Probe) (c : Conf) :
    (c.validate base probes).unrep = c.unrep := rfl

/-- **Validation.**  The strong and the fuzzy hash of every node are the same before and after
`validateExperiment(checkExecutables=True)`: wherever the instance lives (`base`) and whatever the look-ups answer. -/
theorem hash_ignores_validation (md5 : S → S) (fuzzy : Bool) (c : Conf) (base : S) (probes : List Probe)
    (cs : List Comp) :
    hashesC md5 fuzzy (c.validate base probes) cs = hashesC md5 fuzzy c cs := rfl

/-- **Relocation.**  The same specification instantiated (and validated, or not) at two places — two instance
locations, two sets of answers of the operating system, any two live configurations — gives the same hashes. -/
theorem hash_ignores_relocation_of_validated_instance (md5 : S → S) (fuzzy : Bool) (unrep : Blueprints)
    (live₁ live₂ : Live) (base₁ base₂ : S) (probes₁ probes₂ : List Probe) (cs : List Comp) :
    hashesC md5 fuzzy ((Conf.mk unrep live₁).validate base₁ probes₁) cs =
      hashesC md5 fuzzy ((Conf.mk unrep live₂).validate base₂ probes₂) cs := rfl

/-- **Replica against non-replica (and replicas among themselves), validated or not.**  Two nodes of any two
validated experiments that are declared with the same executable (a replica: through its blueprint), arguments,
references and backend get the same hash: a replica and a non-replicated component that do the same work, two
replicas of one component, the same component in two instances. -/
theorem same_work_same_hash_after_validation (md5 : S → S) (fuzzy : Bool) (c₁ c₂ : Conf) (base₁ base₂ : S)
    (probes₁ probes₂ : List Probe) (hs : List (Option S)) (x₁ x₂ : Comp)
    (h₁ : Registered c₁.unrep x₁) (h₂ : Registered c₂.unrep x₂)
    (hexe : x₁.exe = x₂.exe) (hargs : x₁.args = x₂.args) (hrefs : x₁.refs = x₂.refs)
    (hb : x₁.backend = x₂.backend) :
    hashOneC md5 fuzzy (c₁.validate base₁ probes₁) hs x₁ = hashOneC md5 fuzzy (c₂.validate base₂ probes₂) hs x₂ :=
  hash_ignores_location_names_time md5 fuzzy c₁.unrep c₂.unrep hs x₁ x₂ h₁ h₂ hexe hargs hrefs hb

/-- a validation step of a history changes no hash -/
theorem hash_ignores_validation_step (md5 : S → S) (fuzzy : Bool) (unrep : Blueprints) (cs : List SComp)
    (s : CState) (base : S) (probes : List Probe) :
    hashesCFs md5 fuzzy unrep (cstep s (.validate base probes)) cs = hashesCFs md5 fuzzy unrep s cs := rfl

/-- the files after a history with validations are the files after its file operations -/
theorem crun_fs (s : CState) (ops : List COp) : (crun s ops).fs = run s.fs (fsOps ops) := by
  induction ops generalizing s with
  | nil => rfl
  | cons op ops ih =>
    cases op with
    | fs o => simpa [crun, run, fsOps, cstep] using ih (cstep s (.fs o))
    | validate b ps => simpa [crun, run, fsOps, cstep] using ih (cstep s (.validate b ps))

/-- **Histories with validations.**  After any history of file changes and validations (at any moments, with any
answers of the operating system) the hashes are those of the history with the validations left out — so every
theorem about `hashesFs` / `observeHistory` above holds with validations anywhere in between. -/
theorem hash_history_ignores_validations (md5 : S → S) (fuzzy : Bool) (unrep : Blueprints) (cs : List SComp)
    (s : CState) (ops : List COp) :
    hashesCFs md5 fuzzy unrep (crun s ops) cs = hashesFs md5 fuzzy unrep (run s.fs (fsOps ops)) cs := by
  simp [hashesCFs, crun_fs]

/-- what validation writes is what was there, or a real path that can be executed -/
theorem checkExe_unchanged_or_executable (base : S) (p : Probe) (e : S) :
    checkExe base p e = e ∨ p.ok.contains (checkExe base p e) = true := by
  unfold checkExe
  generalize (if pathless e then p.which else some (preCheck base e)) = found
  cases found with
  | none => exact .inl rfl
  | some f =>
    simp only [checkFound]
    split
    · rename_i h
      simp only [Bool.and_eq_true] at h
      exact .inr h.1
    · exact .inl rfl

private def exProbeTool : Probe :=
  { which := some "/i1/bin/tool.sh".toList, real := [], ok := ["/i1/bin/tool.sh".toList] }
private def exProbeLs : Probe :=
  { which := none, real := [("/bin/ls".toList, "/usr/bin/ls".toList)], ok := ["/usr/bin/ls".toList] }
private def exConf : Conf :=
  { unrep := [((0, "single".toList), "tool.sh".toList), ((0, "ls".toList), "/bin/ls".toList)],
    live := [((0, "single".toList), "tool.sh".toList), ((0, "ls".toList), "/bin/ls".toList)] }

/-- non-vacuity: a validation that rewrites a pathless executable into the instance and an absolute one through a
link; an executable that cannot be found stays; a relative one that resolves to itself stays -/
example : (exConf.validate "/i1".toList [exProbeTool, exProbeLs]).live =
    [((0, "single".toList), "/i1/bin/tool.sh".toList), ((0, "ls".toList), "/usr/bin/ls".toList)] := by decide

example : checkExe "/i1".toList ⟨none, [], []⟩ "sander".toList = "sander".toList := by decide

example : checkExe "/i1".toList ⟨none, [], ["/i1/bin/tool.sh".toList]⟩ "bin/tool.sh".toList = "bin/tool.sh".toList := by
  decide

example : fsOps [.validate "/i1".toList [exProbeTool], .fs (.remove "/i1/input/a".toList), .validate [] []] =
    [.remove "/i1/input/a".toList] := by decide

/-! ### the order in which the references are substituted in the arguments

The spelling of a reference may be, at word boundaries, the tail of the spelling of another one (`prod/out.txt:ref`
inside `x-prod/out.txt:ref`: `-` is a word boundary).  The substitutions are made one after the other, so the longer
spelling has to go first: afterwards nothing of it is left for the shorter one to rewrite.  `sortRefs` is that order,
for every list of references. -/

/-- the order of the references by decreasing length of the (absolute) spelling -/
def LongestFirst (l : List Ref) : Prop := l.Pairwise (fun a b => b.abs.length ≤ a.abs.length)

private theorem insertLen_longestFirst (x : Ref) (l : List Ref) (h : LongestFirst l) :
    LongestFirst (insertLen x l) := by
  unfold LongestFirst at h ⊢
  induction l with
  | nil => simp [insertLen]
  | cons y ys ih =>
    simp only [insertLen]
    split
    · rename_i hle
      have h' := List.pairwise_cons.mp h
      refine List.pairwise_cons.mpr ⟨?_, h⟩
      intro b hb
      rcases List.mem_cons.mp hb with hb | hb
      · subst hb; exact hle
      · exact Nat.le_trans (h'.1 b hb) hle
    · rename_i hlt
      have h' := List.pairwise_cons.mp h
      refine List.pairwise_cons.mpr ⟨?_, ih h'.2⟩
      intro b hb
      rcases (mem_insertLen x b ys).mp hb with hb | hb
      · subst hb; omega
      · exact h'.1 b hb

/-- **References are substituted longest spelling first**, whatever the references are called and in whatever order
the component states them: in `sortRefs refs` (the order of both loops of `_compute_memoization_info`) no reference
comes before a reference with a longer spelling. -/
theorem references_substituted_longest_first (refs : List Ref) : LongestFirst (sortRefs refs) := by
  induction refs with
  | nil => simp [sortRefs, LongestFirst]
  | cons x xs ih => exact insertLen_longestFirst x _ ih

/-- … in particular a reference never follows a reference whose spelling is strictly shorter: the order is never
`… short … long …` (as it is, for `stage0.prod/f:ref` and `stage0.x-prod/f:ref`, in the order of the names). -/
theorem shorter_spelling_never_first (refs l1 l2 l3 : List Ref) (short long : Ref)
    (h : sortRefs refs = l1 ++ short :: (l2 ++ long :: l3)) : long.abs.length ≤ short.abs.length := by
  have hp := references_substituted_longest_first refs
  unfold LongestFirst at hp
  rw [h] at hp
  have h2 := (List.pairwise_append.mp hp).2.1
  exact (List.pairwise_cons.mp h2).1 long (by simp)

private theorem isPrefixOf_longer (pat l : S) (h : l.length < pat.length) : pat.isPrefixOf l = false := by
  cases hp : pat.isPrefixOf l with
  | false => rfl
  | true =>
    have := (List.isPrefixOf_iff_prefix.mp hp).length_le
    omega

private theorem subWordAux_shorter_text (pat rep : S) :
    ∀ (s : S) (prev : Option Char), s.length < pat.length → subWordAux pat rep 0 prev s = s := by
  intro s
  induction s with
  | nil => intro prev _; simp [subWordAux]
  | cons c s ih =>
    intro prev h
    have hp := isPrefixOf_longer pat (c :: s) h
    simp only [subWordAux, hp, Bool.false_and, Bool.false_eq_true, if_false]
    rw [ih (some c) (by simp at h; omega)]

/-- the substitution of a spelling leaves every text alone that is shorter than the spelling: a reference can only
be rewritten by the substitution of a reference that is at most as long — with `references_substituted_longest_first`:
only by its own substitution, or by one that comes later. -/
theorem subWord_of_shorter_text (pat rep s : S) (h : s.length < pat.length) : subWord pat rep s = s := by
  unfold subWord
  split
  · rfl
  · exact subWordAux_shorter_text pat rep s none h

example : LongestFirst (sortRefs
    [⟨"stage0.prod/f:ref".toList, "prod/f:ref".toList, "ref".toList, "f".toList, .prodFile 0 (some [])⟩,
     ⟨"stage0.x-prod/f:ref".toList, "x-prod/f:ref".toList, "ref".toList, "f".toList, .prodFile 1 (some [])⟩])
    ∧ ((sortRefs
    [⟨"stage0.prod/f:ref".toList, "prod/f:ref".toList, "ref".toList, "f".toList, .prodFile 0 (some [])⟩,
     ⟨"stage0.x-prod/f:ref".toList, "x-prod/f:ref".toList, "ref".toList, "f".toList, .prodFile 1 (some [])⟩]).map
      (·.rel)) = ["x-prod/f:ref".toList, "prod/f:ref".toList] :=
  ⟨references_substituted_longest_first _, by decide⟩

end St4sd.C16
