import St4sd.Model.Validate
import St4sd.Lemmas.C11Expand
import St4sd.Lemmas.C11Vars
import St4sd.Lemmas.C11Loop
import St4sd.Lemmas.C11Float
import St4sd.Gen.C11
/-!
# C11 — A workflow that loads is structurally executable; a broken one is rejected

`validate tbl sch d = []` is "the workflow loads with validation enabled" (model: `Model/Validate.lean`,
tied to the real loader by `harness/c11.py` on every run).  All theorems are for every conversion table,
every schema and every document, unless they mention the generated `Gen.C11` constants (pin theorems).
-/
namespace St4sd.C11
open St4sd.ValSchema St4sd.Validate

/-! ## Specification-side notions (independent of the algorithms in the model) -/

/-- `Resolves defs v`: `%(v)s` can be substituted completely — `v` is defined and every variable its value
mentions resolves (a finite derivation, so no circular definition is involved). -/
inductive Resolves (defs : List (S × List S)) : S → Prop where
  | mk (v : S) (used : List S) : lookup v defs = some used → (∀ u ∈ used, Resolves defs u) → Resolves defs v

/-- one or more edges lead from `a` to `b` -/
inductive Reach (es : List (Id × Id)) : Id → Id → Prop where
  | edge {a b} : (a, b) ∈ es → Reach es a b
  | step {a b c} : (a, b) ∈ es → Reach es b c → Reach es a c

/-- the fault classes of the property text -/
def dangling (d : Doc) : Prop := ∃ c ∈ d.comps, ∃ r ∈ c.refs, refResolves d r = false
def duplicate (d : Doc) : Prop := ¬ (ids d).Nodup
def cyclic (d : Doc) : Prop := ∃ v, Reach (edges d) v v
def undefinedVar (d : Doc) : Prop := ∃ c ∈ d.comps, ∃ v ∈ c.uses, ¬ Resolves (defsOf d c) v
/-- some option tree of the document, after the type conversion, has a key its schema does not know (at the top
level or anywhere below known keys), or cannot be converted at all -/
inductive UnknownKey : Schema → Val → Prop where
  | here {entries kvs k v} : (k, v) ∈ kvs → (keysOf entries).contains k = false →
      UnknownKey (.dict entries) (.dict kvs)
  | deeper {entries kvs k o s v} : (k, o, s) ∈ entries → lookup k kvs = some v → UnknownKey s v →
      UnknownKey (.dict entries) (.dict kvs)
def unknownKey (tbl : List (S × Conv)) (sch : Schema) (d : Doc) : Prop :=
  ∃ c ∈ d.comps, ∀ o, convert (.node tbl) c.opts = some o → UnknownKey sch o

/-- "the value has a type its declaration admits", one level deep: constants/types/predicates by kind, a
collection where a collection is declared, some alternative of a `ValidateOr` validates the value.
(`ValidateOptional` values are not judged.) -/
def admits : Schema → Val → Bool
  | .null, v => (match v with | .null => true | _ => false)
  | .const c, v => (match v with | .str s => s = c | _ => false)
  | .ty ts, v => ts.any (·.admits v)
  | .pred p, v => p.holds v
  | .opt _, _ => true
  | .or alts, v => checkAny alts v
  | .many _, v => (match v with | .list _ => true | _ => false)
  | .dict _, v => (match v with | .dict _ => true | _ => false)

/-- a wrongly typed value somewhere in an option tree (below known keys) -/
inductive WrongType : Schema → Val → Prop where
  | here {s v} : admits s v = false → WrongType s v
  | deeper {entries kvs k o s v} : (k, o, s) ∈ entries → lookup k kvs = some v → v ≠ .null → WrongType s v →
      WrongType (.dict entries) (.dict kvs)
def wrongType (tbl : List (S × Conv)) (sch : Schema) (d : Doc) : Prop :=
  ∃ c ∈ d.comps, ∀ o, convert (.node tbl) c.opts = some o → WrongType sch o

/-! ## Kahn's algorithm -/

private def Inv (es : List (Id × Id)) (ranks : List (Id × Nat)) (r : Nat) : Prop :=
  (∀ v k, rankOf ranks v = some k → k < r) ∧
  (∀ e ∈ es, ∀ k, rankOf ranks e.2 = some k → ∃ j, rankOf ranks e.1 = some j ∧ j < k)

private theorem rankOf_new (new : List Id) (r : Nat) (ranks : List (Id × Nat)) (v : Id) :
    rankOf (new.map (fun x => (x, r)) ++ ranks) v = if v ∈ new then some r else rankOf ranks v := by
  induction new with
  | nil => simp
  | cons x xs ih =>
    unfold rankOf at ih ⊢
    simp only [List.map_cons, List.cons_append, List.find?_cons]
    by_cases h : x = v
    · subst h; simp
    · have h' : (x == v) = false := by simpa using h
      have h'' : ¬ v = x := fun e => h e.symm
      simp only [h', List.mem_cons, h'', false_or]
      exact ih

private theorem mem_ready {es ranks nodes v} (h : v ∈ ready es ranks nodes) :
    isRanked ranks v = false ∧ ∀ e ∈ es, e.2 = v → isRanked ranks e.1 = true := by
  unfold ready at h
  rw [List.mem_filter] at h
  obtain ⟨_, h⟩ := h
  simp only [Bool.and_eq_true, Bool.not_eq_true', List.all_eq_true, Bool.or_eq_true] at h
  refine ⟨h.1, fun e he hv => ?_⟩
  rcases h.2 e he with h1 | h1
  · simp [hv] at h1
  · exact h1

private theorem inv_step {es ranks r nodes} (hinv : Inv es ranks r) :
    Inv es ((ready es ranks nodes).map (fun x => (x, r)) ++ ranks) (r + 1) := by
  obtain ⟨h1, h2⟩ := hinv
  refine ⟨fun v k hk => ?_, fun e he k hk => ?_⟩
  · rw [rankOf_new] at hk
    split at hk
    · cases hk; omega
    · have := h1 v k hk; omega
  · rw [rankOf_new] at hk
    rw [rankOf_new]
    split at hk
    · rename_i hmem
      cases hk
      have hr := (mem_ready hmem).2 e he rfl
      have hnot : e.1 ∉ ready es ranks nodes := fun hm => by
        have := (mem_ready hm).1; rw [hr] at this; cases this
      rw [if_neg hnot]
      unfold isRanked at hr
      cases hj : rankOf ranks e.1 with
      | none => rw [hj] at hr; cases hr
      | some j => exact ⟨j, rfl, h1 _ _ hj⟩
    · obtain ⟨j, hj, hlt⟩ := h2 e he k hk
      have hnot : e.1 ∉ ready es ranks nodes := fun hm => by
        have := (mem_ready hm).1; unfold isRanked at this; rw [hj] at this; cases this
      rw [if_neg hnot]
      exact ⟨j, hj, hlt⟩

private theorem kahn_inv (es : List (Id × Id)) (nodes : List Id) (fuel r : Nat) (ranks : List (Id × Nat))
    (hinv : Inv es ranks r) : ∃ r', Inv es (kahn es nodes fuel r ranks) r' := by
  induction fuel generalizing r ranks with
  | zero => exact ⟨r, hinv⟩
  | succ n ih =>
    unfold kahn
    split
    · exact ⟨r, hinv⟩
    · rename_i v vs hready
      have := inv_step (nodes := nodes) hinv
      rw [hready] at this
      exact ih (r + 1) _ this

/-- **kahn_sound** (full): whatever the fuel, the ranks computed by Kahn's algorithm increase strictly along
every edge whose consumer got a rank. -/
theorem kahn_sound (es : List (Id × Id)) (nodes : List Id) (fuel : Nat) :
    ∀ e ∈ es, ∀ k, rankOf (kahn es nodes fuel 0 []) e.2 = some k →
      ∃ j, rankOf (kahn es nodes fuel 0 []) e.1 = some j ∧ j < k := by
  have h0 : Inv es [] 0 := ⟨fun v k h => by simp [rankOf] at h, fun e _ k h => by simp [rankOf] at h⟩
  obtain ⟨_, _, h⟩ := kahn_inv es nodes fuel 0 [] h0
  exact h

/-- if every node is ranked there is a rank function that increases strictly along every edge -/
theorem acyclicB_rank (d : Doc) (h : acyclicB d = true) :
    ∃ rank : Id → Nat, ∀ e ∈ edges d, rank e.1 < rank e.2 := by
  refine ⟨fun v => (rankOf (kahnRanks d) v).getD 0, fun e he => ?_⟩
  have hcons : e.2 ∈ ids d := by
    unfold edges at he
    rcases List.mem_append.mp he with he | he
    · unfold compEdges at he
      rw [List.mem_flatMap] at he
      obtain ⟨c, hc, hm⟩ := he
      rw [List.mem_map] at hm
      obtain ⟨r, _, rfl⟩ := hm
      exact List.mem_map_of_mem hc
    · unfold placeholderEdges at he
      rw [List.mem_flatMap] at he
      obtain ⟨c, hc, hm⟩ := he
      rw [List.mem_filterMap] at hm
      obtain ⟨r, _, hr⟩ := hm
      split at hr
      · cases hr
      · cases hp : placeholderInst d r with
        | none => rw [hp] at hr; cases hr
        | some s => rw [hp] at hr; cases hr; exact List.mem_map_of_mem hc
  unfold acyclicB at h
  rw [List.all_eq_true] at h
  have hr := h _ hcons
  unfold isRanked at hr
  cases hk : rankOf (kahnRanks d) e.2 with
  | none => rw [hk] at hr; cases hr
  | some k =>
    obtain ⟨j, hj, hlt⟩ := kahn_sound (edges d) (ids d) (ids d).length e he k hk
    show (rankOf (kahnRanks d) e.1).getD 0 < (rankOf (kahnRanks d) e.2).getD 0
    unfold kahnRanks at hk ⊢
    rw [hj, hk]; exact hlt

private theorem reach_rank {es : List (Id × Id)} {rank : Id → Nat} (h : ∀ e ∈ es, rank e.1 < rank e.2)
    {a b : Id} (hr : Reach es a b) : rank a < rank b := by
  induction hr with
  | edge he => exact h _ he
  | step he _ ih => exact Nat.lt_trans (h _ he) ih

/-- a rank function that increases along every edge excludes every cycle -/
theorem rank_excludes_cycle {es : List (Id × Id)} {rank : Id → Nat} (h : ∀ e ∈ es, rank e.1 < rank e.2) :
    ¬ ∃ v, Reach es v v := fun ⟨_, hr⟩ => Nat.lt_irrefl _ (reach_rank h hr)

/-! ## variables -/

theorem resolveVar_sound (defs : List (S × List S)) (fuel : Nat) (v : S) (h : resolveVar defs fuel v = true) :
    Resolves defs v := by
  induction fuel generalizing v with
  | zero => simp [resolveVar] at h
  | succ n ih =>
    unfold resolveVar at h
    split at h
    · cases h
    · rename_i used hl
      rw [List.all_eq_true] at h
      exact Resolves.mk v used hl (fun u hu => ih u (h u hu))

/-! ## decomposition of `validate d = []` -/

private theorem dupErrors_nil (l : List Id) (h : dupErrors l = []) : l.Nodup := by
  induction l with
  | nil => exact List.nodup_nil
  | cons i rest ih =>
    unfold dupErrors at h
    rw [List.append_eq_nil_iff] at h
    obtain ⟨h1, h2⟩ := h
    refine List.nodup_cons.mpr ⟨fun hm => ?_, ih h2⟩
    have : rest.contains i = true := by simpa using hm
    rw [if_pos this] at h1
    cases h1

private theorem validate_nil' {tbl sch} {d : Doc} (h : validate tbl sch d = []) :
    (dupErrors (ids d) = [] ∧ (∀ c ∈ d.comps, compErrors tbl sch d c = []) ∧ acyclicB d = true) ∧
    replErrors d = [] ∧ dupErrorsExpanded (ids (expandDoc d)) = [] := by
  unfold validate at h
  rw [List.append_eq_nil_iff, List.append_eq_nil_iff, List.append_eq_nil_iff, List.append_eq_nil_iff] at h
  obtain ⟨⟨⟨⟨h1, h2⟩, h3⟩, h4⟩, h5⟩ := h
  refine ⟨⟨h1, fun c hc => ?_, ?_⟩, h4, h5⟩
  · rw [List.flatMap_eq_nil_iff] at h2
    exact h2 c hc
  · cases hb : acyclicB d with
    | true => rfl
    | false => rw [hb] at h3; cases h3

private theorem validate_nil {tbl sch} {d : Doc} (h : validate tbl sch d = []) :
    dupErrors (ids d) = [] ∧ (∀ c ∈ d.comps, compErrors tbl sch d c = []) ∧ acyclicB d = true :=
  (validate_nil' h).1

private theorem compErrors_nil {tbl sch} {d : Doc} {c : Comp} (h : compErrors tbl sch d c = []) :
    optErrors tbl sch c.opts = [] ∧ (∀ r ∈ c.refs, refResolves d r = true) ∧
    (∀ r ∈ c.argRefs, r ∈ c.refs) ∧ (∀ v ∈ c.uses, Resolves (defsOf d c) v) := by
  unfold compErrors at h
  rw [List.append_eq_nil_iff, List.append_eq_nil_iff] at h
  obtain ⟨⟨h1, h2⟩, h3⟩ := h
  unfold refErrors at h2
  rw [List.append_eq_nil_iff] at h2
  obtain ⟨h2a, h2b⟩ := h2
  refine ⟨List.map_eq_nil_iff.mp h1, fun r hr => ?_, fun r hr => ?_, fun v hv => ?_⟩
  · have := List.map_eq_nil_iff.mp h2a
    rw [List.filter_eq_nil_iff] at this
    simpa using this r hr
  · have := List.map_eq_nil_iff.mp h2b
    rw [List.filter_eq_nil_iff] at this
    simpa using this r hr
  · unfold varErrors at h3
    have := List.map_eq_nil_iff.mp h3
    rw [List.filter_eq_nil_iff] at this
    have hv' := this v hv
    simp only [Bool.not_eq_true', Bool.not_eq_false] at hv'
    exact resolveVar_sound _ _ _ hv'

/-! ## Soundness: accepted implies usable -/

/-- **accepted_is_usable** (full): if the workflow loads then its identifiers are unique, every declared
component reference points to an existing component or loop placeholder, every component reference used in a
command line is declared, the graph is acyclic (a rank function increases strictly along every producer →
consumer edge, hence no cycle), every variable a component mentions resolves, and the options of every
component convert and satisfy the schema. -/
theorem accepted_is_usable (tbl : List (S × Conv)) (sch : Schema) (d : Doc) (h : validate tbl sch d = []) :
    (ids d).Nodup ∧
    (∀ c ∈ d.comps, ∀ r ∈ c.refs, r ∈ ids d ∨ r ∈ placeholders d) ∧
    (∀ c ∈ d.comps, ∀ r ∈ c.argRefs, r ∈ c.refs) ∧
    (∃ rank : Id → Nat, ∀ e ∈ edges d, rank e.1 < rank e.2) ∧
    (¬ ∃ v, Reach (edges d) v v) ∧
    (∀ c ∈ d.comps, ∀ v ∈ c.uses, Resolves (defsOf d c) v) ∧
    (∀ c ∈ d.comps, optErrors tbl sch c.opts = []) := by
  obtain ⟨h1, h2, h3⟩ := validate_nil h
  obtain ⟨rank, hrank⟩ := acyclicB_rank d h3
  refine ⟨dupErrors_nil _ h1, fun c hc r hr => ?_, fun c hc => (compErrors_nil (h2 c hc)).2.2.1,
          ⟨rank, hrank⟩, rank_excludes_cycle hrank, fun c hc => (compErrors_nil (h2 c hc)).2.2.2,
          fun c hc => (compErrors_nil (h2 c hc)).1⟩
  have := (compErrors_nil (h2 c hc)).2.1 r hr
  unfold refResolves at this
  simpa using this

/-! ## Completeness per fault class -/

theorem dangling_rejected (tbl sch) (d : Doc) (hf : dangling d) : validate tbl sch d ≠ [] := by
  intro h
  obtain ⟨c, hc, r, hr, hres⟩ := hf
  have := (compErrors_nil ((validate_nil h).2.1 c hc)).2.1 r hr
  rw [hres] at this; cases this

theorem duplicate_rejected (tbl sch) (d : Doc) (hf : duplicate d) : validate tbl sch d ≠ [] :=
  fun h => hf (dupErrors_nil _ (validate_nil h).1)

theorem cyclic_rejected (tbl sch) (d : Doc) (hf : cyclic d) : validate tbl sch d ≠ [] := by
  intro h
  obtain ⟨rank, hrank⟩ := acyclicB_rank d (validate_nil h).2.2
  exact rank_excludes_cycle hrank hf

theorem undefinedVar_rejected (tbl sch) (d : Doc) (hf : undefinedVar d) : validate tbl sch d ≠ [] := by
  intro h
  obtain ⟨c, hc, v, hv, hn⟩ := hf
  exact hn ((compErrors_nil ((validate_nil h).2.1 c hc)).2.2.2 v hv)

/-! ## The scope of a variable: stage sections of the workflow, of the platform and of the user's files -/

/-- a variable without a definition in the scope does not resolve -/
theorem not_resolves_of_lookup_none {defs : List (S × List S)} {v : S} (h : lookup v defs = none) :
    ¬ Resolves defs v := by
  intro hr
  cases hr with
  | mk _ used hl _ => rw [h] at hl; cases hl

/-- **scope_ignores_other_stages** (full): the variable scope of a component is the same when every stage
section (of the workflow's `default` variables, of the active platform, of each user variables file) that is not
for the component's own stage is dropped: nothing defined for another stage is visible. -/
theorem scope_ignores_other_stages (d : Doc) (c : Comp) : defsOf (onlyStage c.stage d) c = defsOf d c := by
  unfold defsOf
  rw [userStage_onlyStage, userGlobals_onlyStage]
  show c.vars ++ userStage d c.stage ++ userGlobals d ++
      sectionOf (d.platStageVars.filter (fun p => p.1 == c.stage)) c.stage ++ d.platGlobals ++
      sectionOf (d.stageVars.filter (fun p => p.1 == c.stage)) c.stage ++ d.globals = _
  rw [sectionOf_filter, sectionOf_filter]

/-- **varOfOtherStage_unresolved** (full): a variable that is defined neither by the component, nor globally
(workflow, active platform, any user variables file), nor by a section FOR THE COMPONENT'S STAGE (workflow, active
platform, any user variables file) does not resolve in the scope of the component — whatever the sections of
other stages define. -/
theorem varOfOtherStage_unresolved (d : Doc) (c : Comp) (v : S)
    (hown : lookup v c.vars = none) (hg : lookup v d.globals = none) (hpg : lookup v d.platGlobals = none)
    (hug : ∀ f ∈ d.userFiles, lookup v f.globals = none)
    (hs : ∀ sec ∈ d.stageVars, sec.1 = c.stage → lookup v sec.2 = none)
    (hps : ∀ sec ∈ d.platStageVars, sec.1 = c.stage → lookup v sec.2 = none)
    (hus : ∀ f ∈ d.userFiles, ∀ sec ∈ f.stages, sec.1 = c.stage → lookup v sec.2 = none) :
    ¬ Resolves (defsOf d c) v := by
  apply not_resolves_of_lookup_none
  unfold defsOf
  have h1 : lookup v (userStage d c.stage) = none := by
    unfold userStage
    exact lookup_flatMap_none _ _ _ (fun f hf => lookup_sectionOf_none _ _ _ (hus f (List.mem_reverse.mp hf)))
  have h2 : lookup v (userGlobals d) = none := by
    unfold userGlobals
    exact lookup_flatMap_none _ _ _ (fun f hf => hug f (List.mem_reverse.mp hf))
  have h3 := lookup_sectionOf_none v d.platStageVars c.stage hps
  have h4 := lookup_sectionOf_none v d.stageVars c.stage hs
  exact lookup_append_none _ _ _ (lookup_append_none _ _ _ (lookup_append_none _ _ _ (lookup_append_none _ _ _
    (lookup_append_none _ _ _ (lookup_append_none _ _ _ hown h1) h2) h3) hpg) h4) hg

/-- **varOfOtherStage_rejected** (full): a workflow one of whose components mentions such a variable — e.g. one
that only a section of ANOTHER stage defines, in the workflow or in a user variables file — is rejected. -/
theorem varOfOtherStage_rejected (tbl sch) (d : Doc) (c : Comp) (v : S) (hc : c ∈ d.comps) (hv : v ∈ c.uses)
    (hown : lookup v c.vars = none) (hg : lookup v d.globals = none) (hpg : lookup v d.platGlobals = none)
    (hug : ∀ f ∈ d.userFiles, lookup v f.globals = none)
    (hs : ∀ sec ∈ d.stageVars, sec.1 = c.stage → lookup v sec.2 = none)
    (hps : ∀ sec ∈ d.platStageVars, sec.1 = c.stage → lookup v sec.2 = none)
    (hus : ∀ f ∈ d.userFiles, ∀ sec ∈ f.stages, sec.1 = c.stage → lookup v sec.2 = none) :
    validate tbl sch d ≠ [] :=
  undefinedVar_rejected tbl sch d ⟨c, hc, v, hv, varOfOtherStage_unresolved d c v hown hg hpg hug hs hps hus⟩

/-! ## Replication: the expanded graph of an accepted workflow -/

private theorem dupErrorsExpanded_nil (l : List Id) (h : dupErrorsExpanded l = []) : l.Nodup := by
  induction l with
  | nil => exact List.nodup_nil
  | cons i rest ih =>
    unfold dupErrorsExpanded at h
    rw [List.append_eq_nil_iff] at h
    obtain ⟨h1, h2⟩ := h
    refine List.nodup_cons.mpr ⟨fun hm => ?_, ih h2⟩
    have : rest.contains i = true := by simpa using hm
    rw [if_pos this] at h1
    cases h1

private theorem replErrors_nil {d : Doc} (h : replErrors d = []) : ∀ c ∈ d.comps, replOk d c = true := by
  intro c hc
  unfold replErrors at h
  have := List.map_eq_nil_iff.mp h
  rw [List.filter_eq_nil_iff] at this
  simpa using this c hc

/-- the fault classes of the property text on the EXPANDED graph -/
def cyclicExpanded (d : Doc) : Prop := ∃ v, Reach (edges (expandDoc d)) v v
def duplicateExpanded (d : Doc) : Prop := ¬ (ids (expandDoc d)).Nodup
def danglingExpanded (d : Doc) : Prop := ∃ c ∈ (expandDoc d).comps, ∃ r ∈ c.refs, r ∉ ids (expandDoc d)
/-- a replicated producer feeds a consumer whose `replicate` count is different -/
def inconsistentReplicate (d : Doc) : Prop := ∃ c ∈ d.comps, replOk d c = false
/-- every declared reference is a component of the document (none goes through a loop placeholder) -/
def refsAreComponents (d : Doc) : Prop := ∀ c ∈ d.comps, ∀ r ∈ c.refs, r ∈ ids d

/-- **expansion_projects** (full): if the identifiers of the expanded document are unique, the `replicate`
counts are consistent and every reference is a component, then no reference of an expanded component dangles
and every producer → consumer edge of the expanded graph lies over an edge of the blueprint graph (the graph
the loader's cycle check runs on). -/
theorem expansion_projects (d : Doc) (hn : (ids (expandDoc d)).Nodup) (hok : ∀ c ∈ d.comps, replOk d c = true)
    (href : refsAreComponents d) :
    (∀ c' ∈ (expandDoc d).comps, ∀ x ∈ c'.refs, x ∈ ids (expandDoc d)) ∧
    (∀ e ∈ edges (expandDoc d), (bpOf (bpList d) e.1, bpOf (bpList d) e.2) ∈ edges d) := by
  have hfirst : ∀ c' ∈ (expandDoc d).comps, ∀ x ∈ c'.refs, x ∈ ids (expandDoc d) := by
    intro c' hc' x hx
    unfold expandDoc at hc'
    simp only [List.mem_flatMap] at hc'
    obtain ⟨c, hc, hc'⟩ := hc'
    obtain ⟨r, _, hm⟩ := ref_projects hc hc' (hok c hc) (href c hc) hx
    rw [ids_expandDoc]
    exact List.mem_map.mpr ⟨(x, r), hm, rfl⟩
  refine ⟨hfirst, ?_⟩
  intro e he
  unfold edges at he
  rcases List.mem_append.mp he with he | he
  · unfold compEdges at he
    rw [List.mem_flatMap] at he
    obtain ⟨c', hc', hm⟩ := he
    rw [List.mem_map] at hm
    obtain ⟨x, hx, rfl⟩ := hm
    have hx' : x ∈ c'.refs := (List.mem_filter.mp hx).1
    have hc'' := hc'
    unfold expandDoc at hc''
    simp only [List.mem_flatMap] at hc''
    obtain ⟨c, hc, hcc⟩ := hc''
    obtain ⟨r, hr, hm⟩ := ref_projects hc hcc (hok c hc) (href c hc) hx'
    show (bpOf (bpList d) x, bpOf (bpList d) c'.id) ∈ edges d
    rw [bpOf_of_mem hn hm, bpOf_of_mem hn (mem_bpList hc hcc)]
    unfold edges compEdges
    refine List.mem_append_left _ ?_
    rw [List.mem_flatMap]
    refine ⟨c, hc, List.mem_map.mpr ⟨r, ?_, rfl⟩⟩
    rw [List.mem_filter]
    exact ⟨hr, by simpa using href c hc r hr⟩
  · -- no reference of the expanded document goes through a placeholder: every one is a component
    unfold placeholderEdges at he
    rw [List.mem_flatMap] at he
    obtain ⟨c', hc', hm⟩ := he
    rw [List.mem_filterMap] at hm
    obtain ⟨x, hx, hr⟩ := hm
    have : (ids (expandDoc d)).contains x = true := by simpa using hfirst c' hc' x hx
    rw [if_pos this] at hr
    cases hr

private theorem reach_projects {d : Doc} (h : ∀ e ∈ edges (expandDoc d),
    (bpOf (bpList d) e.1, bpOf (bpList d) e.2) ∈ edges d) {a b : Id} (hr : Reach (edges (expandDoc d)) a b) :
    Reach (edges d) (bpOf (bpList d) a) (bpOf (bpList d) b) := by
  induction hr with
  | edge he => exact .edge (h _ he)
  | step he _ ih => exact .step (h _ he) ih

/-- **expanded_cycle_lies_over_blueprint_cycle** (full, under the hypotheses of `expansion_projects`): a cycle of
the expanded graph projects to a cycle of the blueprint graph. -/
theorem expanded_cycle_lies_over_blueprint_cycle (d : Doc) (hn : (ids (expandDoc d)).Nodup)
    (hok : ∀ c ∈ d.comps, replOk d c = true) (href : refsAreComponents d) (hc : cyclicExpanded d) : cyclic d := by
  obtain ⟨v, hv⟩ := hc
  exact ⟨_, reach_projects (expansion_projects d hn hok href).2 hv⟩

private theorem refsAreComponents_of {tbl sch} {d : Doc} (h : validate tbl sch d = []) (hp : placeholders d = []) :
    refsAreComponents d := by
  intro c hc r hr
  have := (compErrors_nil ((validate_nil h).2.1 c hc)).2.1 r hr
  unfold refResolves at this
  rw [hp] at this
  simpa using this

/-- **accepted_expansion_is_usable_partial**: if the workflow loads then the EXPANDED graph (replicas and
aggregating components written out, what the workflow graph is built from) has unique identifiers, none of its
references dangles, a rank function increases strictly along every one of its producer → consumer edges, hence it
has no cycle, and every expanded component has the options, variables and variable uses of a component of the
document (whose configuration resolves by `accepted_is_usable`).
Partial: for documents without loop instances (`placeholders d = []`, no component is named `<k>#<name>`); the
expansion of DoWhile documents is the subject of C05. -/
theorem accepted_expansion_is_usable_partial (tbl : List (S × Conv)) (sch : Schema) (d : Doc)
    (h : validate tbl sch d = []) (hp : placeholders d = []) :
    (ids (expandDoc d)).Nodup ∧
    (∀ c' ∈ (expandDoc d).comps, ∀ x ∈ c'.refs, x ∈ ids (expandDoc d)) ∧
    (∃ rank : Id → Nat, ∀ e ∈ edges (expandDoc d), rank e.1 < rank e.2) ∧
    (¬ ∃ v, Reach (edges (expandDoc d)) v v) ∧
    (∀ c' ∈ (expandDoc d).comps, ∃ c ∈ d.comps, c'.stage = c.stage ∧ c'.opts = c.opts ∧ c'.vars = c.vars ∧
        c'.uses = c.uses) := by
  obtain ⟨⟨_, _, h3⟩, h4, h5⟩ := validate_nil' h
  have hn := dupErrorsExpanded_nil _ h5
  have hok := replErrors_nil h4
  have href := refsAreComponents_of h hp
  obtain ⟨hdang, hproj⟩ := expansion_projects d hn hok href
  obtain ⟨rank, hrank⟩ := acyclicB_rank d h3
  have hrank' : ∀ e ∈ edges (expandDoc d), rank (bpOf (bpList d) e.1) < rank (bpOf (bpList d) e.2) :=
    fun e he => hrank _ (hproj e he)
  refine ⟨hn, hdang, ⟨fun x => rank (bpOf (bpList d) x), hrank'⟩,
    rank_excludes_cycle (rank := fun x => rank (bpOf (bpList d) x)) hrank', ?_⟩
  intro c' hc'
  unfold expandDoc at hc'
  simp only [List.mem_flatMap] at hc'
  obtain ⟨c, hc, hcc⟩ := hc'
  refine ⟨c, hc, ?_⟩
  unfold expandComp at hcc
  split at hcc
  · rw [List.mem_map] at hcc
    obtain ⟨k, _, rfl⟩ := hcc
    exact ⟨rfl, rfl, rfl, rfl⟩
  · split at hcc <;> (rw [List.mem_singleton] at hcc; subst hcc; exact ⟨rfl, rfl, rfl, rfl⟩)

/-- a cycle of the expanded graph — through replicas, through aggregating components, anywhere — is rejected -/
theorem cyclicExpanded_rejected_partial (tbl sch) (d : Doc) (hp : placeholders d = []) (hf : cyclicExpanded d) :
    validate tbl sch d ≠ [] :=
  fun h => (accepted_expansion_is_usable_partial tbl sch d h hp).2.2.2.1 hf

/-- a reference of an expanded component that dangles is rejected -/
theorem danglingExpanded_rejected_partial (tbl sch) (d : Doc) (hp : placeholders d = [])
    (hf : danglingExpanded d) : validate tbl sch d ≠ [] := by
  intro h
  obtain ⟨c, hc, r, hr, hn⟩ := hf
  exact hn ((accepted_expansion_is_usable_partial tbl sch d h hp).2.1 c hc r hr)

/-- identifiers that collide after the expansion (a hand-written `prep1` next to a replicated `prep`) are
rejected (full) -/
theorem duplicateExpanded_rejected (tbl sch) (d : Doc) (hf : duplicateExpanded d) : validate tbl sch d ≠ [] :=
  fun h => hf (dupErrorsExpanded_nil _ (validate_nil' h).2.2)

/-- inconsistent `replicate` counts are rejected (full) -/
theorem inconsistentReplicate_rejected (tbl sch) (d : Doc) (hf : inconsistentReplicate d) :
    validate tbl sch d ≠ [] := by
  intro h
  obtain ⟨c, hc, hb⟩ := hf
  rw [replErrors_nil (validate_nil' h).2.1 c hc] at hb
  cases hb

/-! ## options: unknown keys and wrongly typed values -/

private theorem mem_checkEntries {entries : List (S × Bool × Schema)} {kvs : List (S × Val)} {k o s v}
    (hm : (k, o, s) ∈ entries) (hl : lookup k kvs = some v) (hv : v ≠ .null) (e : SErr) (he : e ∈ check s v) :
    e ∈ checkEntries entries kvs := by
  induction entries with
  | nil => cases hm
  | cons hd rest ih =>
    obtain ⟨k', o', s'⟩ := hd
    rw [checkEntries]
    rw [List.mem_append]
    rcases List.mem_cons.mp hm with h | h
    · left
      cases h
      rw [hl]
      cases v <;> first | exact absurd rfl hv | exact he
    · right; exact ih h

private theorem unknownKey_hard {s : Schema} {v : Val} (h : UnknownKey s v) :
    ∃ e ∈ check s v, e.isMissing = false := by
  induction h with
  | @here entries kvs k v hm hk =>
    refine ⟨.keyUnknown k, ?_, rfl⟩
    rw [check, List.mem_append]
    left
    rw [List.mem_map]
    refine ⟨(k, v), ?_, rfl⟩
    rw [List.mem_filter]
    exact ⟨hm, by simpa using hk⟩
  | @deeper entries kvs k o s v hm hl hu ih =>
    obtain ⟨e, he, hh⟩ := ih
    refine ⟨e, ?_, hh⟩
    rw [check, List.mem_append]
    right
    refine mem_checkEntries hm hl ?_ e he
    cases hu <;> exact fun h => by cases h

private theorem not_admits_hard {s : Schema} {v : Val} (h : admits s v = false) :
    SErr.valueInvalid ∈ check s v := by
  cases s with
  | null => cases v <;> simp_all [admits, check]
  | const c => cases v <;> simp_all [admits, check]
  | ty ts => simp only [admits] at h; simp [check, h]
  | pred p => simp only [admits] at h; simp [check, h]
  | opt s => simp [admits] at h
  | or alts => simp only [admits] at h; simp [check, h]
  | many s => cases v <;> simp_all [admits, check]
  | dict es => cases v <;> simp_all [admits, check]

private theorem wrongType_hard {s : Schema} {v : Val} (h : WrongType s v) :
    ∃ e ∈ check s v, e.isMissing = false := by
  induction h with
  | here h => exact ⟨.valueInvalid, not_admits_hard h, rfl⟩
  | @deeper entries kvs k o s v hm hl hv _ ih =>
    obtain ⟨e, he, hh⟩ := ih
    refine ⟨e, ?_, hh⟩
    rw [check, List.mem_append]
    right
    exact mem_checkEntries hm hl hv e he

private theorem optErrors_nil {tbl sch opts} (h : optErrors tbl sch opts = []) :
    ∃ o, convert (.node tbl) opts = some o ∧ ∀ e ∈ check sch o, e.isMissing = true := by
  unfold optErrors at h
  split at h
  · cases h
  · rename_i o ho
    refine ⟨o, ho, fun e he => ?_⟩
    rw [List.filter_eq_nil_iff] at h
    simpa using h e he

theorem unknownKey_rejected (tbl sch) (d : Doc) (hf : unknownKey tbl sch d) : validate tbl sch d ≠ [] := by
  intro h
  obtain ⟨c, hc, hu⟩ := hf
  obtain ⟨o, ho, hall⟩ := optErrors_nil (compErrors_nil ((validate_nil h).2.1 c hc)).1
  obtain ⟨e, he, hh⟩ := unknownKey_hard (hu o ho)
  rw [hall e he] at hh; cases hh

theorem wrongType_rejected (tbl sch) (d : Doc) (hf : wrongType tbl sch d) : validate tbl sch d ≠ [] := by
  intro h
  obtain ⟨c, hc, hu⟩ := hf
  obtain ⟨o, ho, hall⟩ := optErrors_nil (compErrors_nil ((validate_nil h).2.1 c hc)).1
  obtain ⟨e, he, hh⟩ := wrongType_hard (hu o ho)
  rw [hall e he] at hh; cases hh

/-! ## a YAML float for an option whose declaration admits no float (`numberProcesses: 2.5`, `gpus: 3.0`) -/

/-- a float — whole or not — somewhere in an option tree AS WRITTEN (before the type conversion), below known keys,
at a key whose rule admits no float (`mayAdmitFloat`: no `float` type rule, no predicate that holds for floats, in
no alternative) -/
inductive FloatAt : Schema → Val → Prop where
  | here {s i f} : mayAdmitFloat s = false → FloatAt s (.float i f)
  | deeper {entries kvs k o s v} : (k, o, s) ∈ entries → lookup k kvs = some v → FloatAt s v →
      FloatAt (.dict entries) (.dict kvs)
def floatMistyped (sch : Schema) (d : Doc) : Prop := ∃ c ∈ d.comps, FloatAt sch c.opts

private theorem floatAt_hard {s : Schema} {v : Val} (h : FloatAt s v) :
    ∀ o, (o = v ∨ ∃ c, convert c v = some o) → (∃ e ∈ check s o, e.isMissing = false) ∧ o ≠ .null := by
  induction h with
  | @here s i f hm =>
    intro o ho
    have : o = .float i f := by
      rcases ho with ho | ⟨c, ho⟩
      · exact ho
      · rw [convert_float] at ho; cases ho; rfl
    subst this
    exact ⟨⟨.valueInvalid, check_float s i f hm, rfl⟩, fun h => by cases h⟩
  | @deeper entries kvs k o' s v hm hl _ ih =>
    intro o ho
    -- the converted tree is a dictionary in which `k` carries the value of `k` converted (or untouched)
    have hshape : ∃ kvs' v', o = .dict kvs' ∧ lookup k kvs' = some v' ∧ (v' = v ∨ ∃ c, convert c v = some v') := by
      rcases ho with ho | ⟨c, ho⟩
      · exact ⟨kvs, v, ho, hl, .inl rfl⟩
      · cases c with
        | leaf ck => rw [convert_leaf_dict] at ho; cases ho; exact ⟨kvs, v, rfl, hl, .inl rfl⟩
        | node es =>
          rw [convert_node_dict] at ho
          cases hm' : mapKvs (fun k v => convLookup es k v) kvs with
          | none => rw [hm'] at ho; cases ho
          | some kvs' =>
            rw [hm'] at ho; cases ho
            obtain ⟨v', h1, h2⟩ := lookup_mapKvs hm' hl
            exact ⟨kvs', v', rfl, h1, convLookup_cases es k v v' h2⟩
    obtain ⟨kvs', v', rfl, hl', hv'⟩ := hshape
    obtain ⟨⟨e, he, hh⟩, hnn⟩ := ih v' hv'
    refine ⟨⟨e, ?_, hh⟩, fun h => by cases h⟩
    rw [check, List.mem_append]
    right
    exact mem_checkEntries hm hl' hnn e he

/-- **floatMistype_rejected** (full): for EVERY conversion table, every schema and every document — a component
that gives a float, whole (`3.0`) or not (`2.5`), for an option whose declaration admits no float is rejected.  No
entry of the conversion table can rescue the value: the conversion pre-pass never turns a float into something
else (it would have to truncate `2.5` to `2`), so the schema check sees the float the author wrote. -/
theorem floatMistype_rejected (tbl sch) (d : Doc) (hf : floatMistyped sch d) : validate tbl sch d ≠ [] := by
  intro h
  obtain ⟨c, hc, hu⟩ := hf
  obtain ⟨o, ho, hall⟩ := optErrors_nil (compErrors_nil ((validate_nil h).2.1 c hc)).1
  obtain ⟨⟨e, he, hh⟩, _⟩ := floatAt_hard hu o (.inr ⟨_, ho⟩)
  rw [hall e he] at hh; cases hh

/-- the option tree `{p₀: {… {pₙ: <float>}}}` along a path of the schema that ends at such a rule -/
theorem floatAt_treeAt (p : List S) (sch s : Schema) (i : Int) (f : Bool) (hs : schemaAt sch p = some s)
    (hm : mayAdmitFloat s = false) : FloatAt sch (treeAt p (.float i f)) := by
  induction p generalizing sch with
  | nil => rw [schemaAt] at hs; cases hs; exact .here hm
  | cons k rest ih =>
    cases sch with
    | dict entries =>
      rw [schemaAt] at hs
      cases he : entryOf k entries with
      | none => rw [he] at hs; cases hs
      | some s1 =>
        rw [he] at hs
        obtain ⟨o, ho⟩ := entryOf_mem he
        exact .deeper ho (by simp [lookup]) (ih s1 hs)
    | null => simp [schemaAt] at hs
    | const _ => simp [schemaAt] at hs
    | ty _ => simp [schemaAt] at hs
    | pred _ => simp [schemaAt] at hs
    | opt _ => simp [schemaAt] at hs
    | or _ => simp [schemaAt] at hs
    | many _ => simp [schemaAt] at hs

/-- **float_for_option_rejected** (full): the single fault "mistype option `p` with a float" — for every table,
schema, path `p` of the schema whose rule admits no float, float value and document with a component whose options
are `{p: <float>}` -/
theorem float_for_option_rejected (tbl sch) (d : Doc) (c : Comp) (p : List S) (s : Schema) (i : Int) (f : Bool)
    (hc : c ∈ d.comps) (ho : c.opts = treeAt p (.float i f)) (hs : schemaAt sch p = some s)
    (hm : mayAdmitFloat s = false) : validate tbl sch d ≠ [] :=
  floatMistype_rejected tbl sch d ⟨c, hc, ho ▸ floatAt_treeAt p sch s i f hs hm⟩

/-! ## Packages with DoWhile documents (`Model/ValidateLoop.lean`) -/

/-- the fault classes of the property text inside a DoWhile document -/
def danglingLoopBinding (p : Package) : Prop :=
  ∃ l ∈ p.loops, ∃ kv ∈ l.loopBindings, offset l kv.2 ∉ tmplIds l
def danglingCondition (p : Package) : Prop := ∃ l ∈ p.loops, offset l l.cond ∉ tmplIds l
/-- a binding value that is no component of the main document, no importing component and no looped component
of any document -/
def danglingBinding (p : Package) : Prop :=
  ∃ l ∈ p.loops, ∃ kv ∈ l.bindings, kv.2 ∉ ids p.main ++ stubIds p ∧ ∀ l' ∈ p.loops, kv.2 ∉ tmplIds l'
def unboundInput (p : Package) : Prop := ∃ l ∈ p.loops, ∃ k ∈ l.inputs, lookup k l.bindings = none
def duplicateLooped (p : Package) : Prop := ∃ l ∈ p.loops, ¬ (tmplIds l).Nodup
/-- a reference of a looped component, as rewritten for iteration 0, is neither a component of the loaded
document nor a placeholder -/
def danglingLoopReference (p : Package) : Prop :=
  ∃ l ∈ p.loops, ∃ t ∈ l.comps, ∃ r ∈ t.refs, refResolves (flatten p) (rewriteRef l 0 r) = false

private theorem loopOk_of {tbl sch} {p : Package} (h : validateP tbl sch p = []) {l : Loop} (hl : l ∈ p.loops) :
    ∃ foreign, LoopOk foreign l ∧ ∀ i ∈ foreign, i ∈ ids p.main ++ stubIds p ∨ ∃ l' ∈ p.loops, i ∈ tmplIds l' :=
  loopErrorsFrom_nil (validateP_nil h).1 l hl

/-- **acceptedP_is_usable** (full): if a package with DoWhile documents loads then the document made of the main
components and iteration 0 of every loop is usable in the sense of `accepted_is_usable` (unique identifiers,
every reference a component or a loop placeholder, acyclic, variables resolve — the looped components in the
scope of their absolute stage —, options valid), and for every loop: the looped components have pairwise
different identifiers, every input binding has a value, every binding value is a component known outside the
loop or a looped component, every LOOP binding and the condition point to looped components of the same
document. -/
theorem acceptedP_is_usable (tbl : List (S × Conv)) (sch : Schema) (p : Package) (h : validateP tbl sch p = []) :
    validate tbl sch (flatten p) = [] ∧
    ∀ l ∈ p.loops,
      (tmplIds l).Nodup ∧
      (∀ k ∈ l.inputs, ∃ i, lookup k l.bindings = some i) ∧
      (∀ kv ∈ l.bindings, kv.2 ∈ ids p.main ++ stubIds p ∨ ∃ l' ∈ p.loops, kv.2 ∈ tmplIds l') ∧
      (∀ kv ∈ l.loopBindings, offset l kv.2 ∈ tmplIds l) ∧
      offset l l.cond ∈ tmplIds l := by
  refine ⟨(validateP_nil h).2, fun l hl => ?_⟩
  obtain ⟨foreign, hok, hsub⟩ := loopOk_of h hl
  exact ⟨hok.nodup, hok.bound, fun kv hkv => hsub _ (hok.bindings kv hkv), hok.loopBindings, hok.cond⟩

/-- **next_iteration_resolves** (full): an accepted package is structurally executable beyond iteration 0: for
every loop and every `k`, each reference of each component that iteration `k+1` adds (input bindings with a loop
binding now point to iteration `k`) is a component of the document with the iterations `1 … k+1` of that loop
added, or a placeholder of the loaded document; and the components of one iteration have pairwise different
identifiers.  Nothing is left to fail when the next iteration is instantiated at run time. -/
theorem next_iteration_resolves (tbl : List (S × Conv)) (sch : Schema) (p : Package)
    (h : validateP tbl sch p = []) (l : Loop) (hl : l ∈ p.loops) (k : Nat) :
    (∀ c' ∈ inst l (k + 1), ∀ r ∈ c'.refs,
      r ∈ ids (unrolled p l (k + 1)) ∨ r ∈ placeholders (flatten p)) ∧
    ((inst l (k + 1)).map Comp.id).Nodup := by
  obtain ⟨foreign, hok, _⟩ := loopOk_of h hl
  refine ⟨next_refs_resolve hl (fun c hc r hr => ?_) hok.loopBindings k, nodup_ids_inst hok.nodup _⟩
  exact (accepted_is_usable tbl sch (flatten p) (validateP_nil h).2).2.1 c hc r hr

theorem danglingLoopBinding_rejected (tbl sch) (p : Package) (hf : danglingLoopBinding p) :
    validateP tbl sch p ≠ [] := by
  intro h
  obtain ⟨l, hl, kv, hkv, hn⟩ := hf
  exact hn (((acceptedP_is_usable tbl sch p h).2 l hl).2.2.2.1 kv hkv)

theorem danglingCondition_rejected (tbl sch) (p : Package) (hf : danglingCondition p) :
    validateP tbl sch p ≠ [] := by
  intro h
  obtain ⟨l, hl, hn⟩ := hf
  exact hn ((acceptedP_is_usable tbl sch p h).2 l hl).2.2.2.2

theorem danglingBinding_rejected (tbl sch) (p : Package) (hf : danglingBinding p) :
    validateP tbl sch p ≠ [] := by
  intro h
  obtain ⟨l, hl, kv, hkv, hn1, hn2⟩ := hf
  rcases ((acceptedP_is_usable tbl sch p h).2 l hl).2.2.1 kv hkv with h1 | ⟨l', hl', h1⟩
  · exact hn1 h1
  · exact hn2 l' hl' h1

theorem unboundInput_rejected (tbl sch) (p : Package) (hf : unboundInput p) : validateP tbl sch p ≠ [] := by
  intro h
  obtain ⟨l, hl, k, hk, hn⟩ := hf
  obtain ⟨i, hi⟩ := ((acceptedP_is_usable tbl sch p h).2 l hl).2.1 k hk
  rw [hn] at hi; cases hi

theorem duplicateLooped_rejected (tbl sch) (p : Package) (hf : duplicateLooped p) : validateP tbl sch p ≠ [] := by
  intro h
  obtain ⟨l, hl, hn⟩ := hf
  exact hn ((acceptedP_is_usable tbl sch p h).2 l hl).1

theorem danglingLoopReference_rejected (tbl sch) (p : Package) (hf : danglingLoopReference p) :
    validateP tbl sch p ≠ [] := by
  intro h
  obtain ⟨l, hl, t, ht, r, hr, hn⟩ := hf
  refine dangling_rejected tbl sch (flatten p) ⟨_, inst0_sub_flatten hl (List.mem_map.mpr ⟨t, ht, rfl⟩),
    rewriteRef l 0 r, ?_, hn⟩ (validateP_nil h).2
  exact List.mem_map.mpr ⟨r, hr, rfl⟩

/-! ### references to the importing (`$import`) entry

The entry of the main document that instantiates a DoWhile document (`name: refine, $import: dowhile.yaml`) is
not a component: the loaded document has the looped components (`stage1.0#work`) and their placeholders
(`stage1.work`) instead.  "Consume the output of the loop" written as a reference to the entry is a dangling
reference. -/

/-- a component of the loaded document (a component of the main document, or iteration 0 of a looped component with
its references rewritten: an input binding replaced by its value) declares a reference to an importing entry whose
identifier no component or placeholder of the main document and no looped component shares -/
def referenceToImportEntry (p : Package) : Prop :=
  ∃ c ∈ (flatten p).comps, ∃ r ∈ c.refs, r ∈ stubIds p ∧ afterHash r.2 = none ∧ r ∉ ids p.main ∧
    r ∉ placeholders p.main ∧ ∀ l ∈ p.loops, r ∉ tmplIds l

/-- **referenceToImportEntry_rejected** (full): for every package, a reference to an importing entry — from a
component of the main document, or from a looped component directly or through an input binding bound to the
entry — is reported when the package is loaded. -/
theorem referenceToImportEntry_rejected (tbl sch) (p : Package) (hf : referenceToImportEntry p) :
    validateP tbl sch p ≠ [] := by
  intro h
  obtain ⟨c, hc, r, hr, _, hn, hm, hph, ht⟩ := hf
  exact dangling_rejected tbl sch (flatten p) ⟨c, hc, r, hr, entry_not_resolved hn hm hph ht⟩ (validateP_nil h).2

/-- **accepted_references_are_graph_nodes** (full): every reference of every component of an accepted package
names a component of the main document, iteration 0 of a looped component, a placeholder of the main document or
(the placeholder of) a looped component — being the name of an importing entry is never enough. -/
theorem accepted_references_are_graph_nodes (tbl sch) (p : Package) (h : validateP tbl sch p = []) :
    ∀ c ∈ (flatten p).comps, ∀ r ∈ c.refs,
      r ∈ ids p.main ∨ (∃ l ∈ p.loops, ∃ j ∈ tmplIds l, r = (j.1, iterName 0 j.2)) ∨
      r ∈ placeholders p.main ∨ ∃ l ∈ p.loops, r ∈ tmplIds l := by
  intro c hc r hr
  rcases (accepted_is_usable tbl sch (flatten p) (validateP_nil h).2).2.1 c hc r hr with h1 | h1
  · rcases mem_ids_flatten h1 with h2 | h2
    · exact .inl h2
    · exact .inr (.inl h2)
  · rcases mem_placeholders_flatten h1 with h2 | h2
    · exact .inr (.inr (.inl h2))
    · exact .inr (.inr (.inr h2))

/-- the loop bindings and the condition can never name an importing entry that is no looped component (corollary
of `acceptedP_is_usable`; stated for the fault "the condition / a loop binding is renamed to the entry") -/
theorem conditionToImportEntry_rejected (tbl sch) (p : Package)
    (hf : ∃ l ∈ p.loops, offset l l.cond ∈ stubIds p ∧ offset l l.cond ∉ tmplIds l) : validateP tbl sch p ≠ [] := by
  obtain ⟨l, hl, _, hn⟩ := hf
  exact danglingCondition_rejected tbl sch p ⟨l, hl, hn⟩

theorem loopBindingToImportEntry_rejected (tbl sch) (p : Package)
    (hf : ∃ l ∈ p.loops, ∃ kv ∈ l.loopBindings, offset l kv.2 ∈ stubIds p ∧ offset l kv.2 ∉ tmplIds l) :
    validateP tbl sch p ≠ [] := by
  obtain ⟨l, hl, kv, hkv, _, hn⟩ := hf
  exact danglingLoopBinding_rejected tbl sch p ⟨l, hl, kv, hkv, hn⟩

/-! ### the bindings when the next iteration is instantiated

The code as it is compares the binding values with different sets at load time (importing entries included) and at
run time (`instantiate_dowhile_next_iteration`: components of the graph only).  Partial: under the decidable
hypothesis that no binding value of the loop names an importing entry or a placeholder, the binding check of every
later iteration passes for an accepted package.  `Witness.C11`: without the hypothesis it does not (known finding
C11-binding-to-import-entry); with the repaired load-time check (`validatePFixed`) such a package is rejected. -/

theorem ids_main_sub_flatten (p : Package) {i : Id} (h : i ∈ ids p.main) : i ∈ ids (flatten p) := by
  unfold ids flatten at *
  simp only [List.map_append]
  exact List.mem_append_left _ h

theorem next_iteration_bindings_known_partial (tbl : List (S × Conv)) (sch : Schema) (p : Package)
    (h : validateP tbl sch p = []) (l : Loop) (hl : l ∈ p.loops) (hb : bindingsAvoidImportEntries p l = true)
    (k : Nat) : nextBindingErrors p l k = [] := by
  unfold nextBindingErrors
  rw [List.map_eq_nil_iff, List.filter_eq_nil_iff]
  intro kv hkv
  have h1 := ((acceptedP_is_usable tbl sch p h).2 l hl).2.2.1 kv hkv
  unfold bindingsAvoidImportEntries at hb
  rw [List.all_eq_true] at hb
  have h2 := hb kv hkv
  rw [Bool.and_eq_true] at h2
  obtain ⟨h2a, h2b⟩ := h2
  have h3 : kv.2 ∉ stubIds p := by intro hm; simp [hm] at h2a
  have h4 : kv.2 ∉ p.loops.flatMap tmplIds := by intro hm; simp only [List.contains_eq_mem, hm] at h2b; simp at h2b
  have h5 : kv.2 ∈ ids p.main := by
    rcases h1 with h1 | ⟨l', hl', h1⟩
    · rcases List.mem_append.mp h1 with h1 | h1
      · exact h1
      · exact absurd h1 h3
    · exact absurd (List.mem_flatMap.mpr ⟨l', hl', h1⟩) h4
  have h6 := ids_flatten_sub_unrolled p l k (ids_main_sub_flatten p h5)
  simp [h6]

/-- the hypothesis is satisfiable (every generated well-formed package satisfies it) -/
example : bindingsAvoidImportEntries
    { main := { comps := [], globals := [] },
      loops := [{ stage := 1, name := "loop0".toList, inputs := ["in0".toList],
                  bindings := [("in0".toList, (0, "ca".toList))], loopBindings := [], cond := (0, "la".toList),
                  comps := [] }] }
    { stage := 1, name := "loop0".toList, inputs := ["in0".toList],
      bindings := [("in0".toList, (0, "ca".toList))], loopBindings := [], cond := (0, "la".toList), comps := [] }
    = true := by decide

/-- **fixed_rejects_binding_to_nothing** (full, for the repaired load-time check): a binding value that is neither a
component of the main document nor a looped component — in particular an importing entry — is reported. -/
theorem fixed_rejects_binding_to_nothing (tbl sch) (p : Package)
    (hf : ∃ l ∈ p.loops, ∃ kv ∈ l.bindings, kv.2 ∉ ids p.main ∧ ∀ l' ∈ p.loops, kv.2 ∉ tmplIds l') :
    validatePFixed tbl sch p ≠ [] := by
  intro h
  unfold validatePFixed at h
  rw [List.append_eq_nil_iff] at h
  obtain ⟨l, hl, kv, hkv, hn1, hn2⟩ := hf
  obtain ⟨foreign, hok, hsub⟩ := loopErrorsFrom_nil h.1 l hl
  rcases hsub _ (hok.bindings kv hkv) with h1 | ⟨l', hl', h1⟩
  · exact hn1 h1
  · exact hn2 l' hl' h1

/-! ## Pin theorems on the constants regenerated from the source (`Gen/C11.lean`) -/

/-- Every option key of the schema in the source, misspelled (one letter appended) in an otherwise empty
component, is reported — "misspell each option" follows the code. -/
theorem every_misspelled_option_reported :
    ∀ p ∈ Gen.C11.optionPaths,
      (optErrors Gen.C11.convTable Gen.C11.componentSchema (treeAt (misspellLast p) (.str "word".toList))).isEmpty
        = false := by
  decide +kernel

/-- … while no correctly spelled key is reported as unknown (value `None` = "not set"). -/
theorem no_correct_option_reported :
    ∀ p ∈ Gen.C11.optionPaths,
      optErrors Gen.C11.convTable Gen.C11.componentSchema (treeAt p .null) = [] := by
  decide +kernel

/-- No option is converted with Python's builtin `bool`, for which `bool("no")`/`bool("zzz")` is `True`
(see `Witness/C11.lean`; repaired by `fixes/C11-bool-options.diff`). -/
theorem convTable_has_no_builtin_bool : usesBuiltinBoolList Gen.C11.convTable = false := by
  decide +kernel

/-- the repaired converter rejects every word that is not a boolean word -/
theorem toBool_rejects_words (s : S) (v : Val) (h : convLeaf .toBool (.str s) = some v) :
    lower s ∈ ["true".toList, "yes".toList, "false".toList, "no".toList] := by
  simp only [convLeaf] at h
  split at h
  · rename_i h1; simp only [List.contains_eq_mem, List.mem_cons, List.mem_nil_iff, or_false, decide_eq_true_eq] at h1
    rcases h1 with h1 | h1 <;> simp [h1]
  · split at h
    · rename_i _ h1; simp only [List.contains_eq_mem, List.mem_cons, List.mem_nil_iff, or_false, decide_eq_true_eq] at h1
      rcases h1 with h1 | h1 <;> simp [h1]
    · cases h

/-- may the rule at the end of an option path of the source's schema validate a float? -/
private def floatAdmittedAt (p : List S) : Bool :=
  match schemaAt Gen.C11.componentSchema p with
  | some s => mayAdmitFloat s
  | none => true

/-- For every option key of the schema in the source and the floats 2.5, 0.5, 1.9, 3.0, -1.5: the float given for
that option (in an otherwise empty component) is reported exactly when the rule of the option admits no float. -/
theorem float_reported_iff_not_admitted :
    ∀ p ∈ Gen.C11.optionPaths,
      ∀ v ∈ [Val.float 2 true, Val.float 0 true, Val.float 1 true, Val.float 3 false, Val.float (-1) true],
        (optErrors Gen.C11.convTable Gen.C11.componentSchema (treeAt p v)).isEmpty = floatAdmittedAt p := by
  decide +kernel

/-- Every option the source converts with `int`/`optional_int` (numberProcesses, numberThreads, ranksPerNode,
threadsPerCore, gpus, replicate, repeatRetries, maxRestarts, gracePeriod, …) has a rule that admits no float —
so `float_for_option_rejected` applies to it — except `repeatInterval`, whose rule lists `float`. -/
theorem int_converted_options_admit_no_float :
    ∀ p ∈ Gen.C11.optionPaths,
      (convKindAt Gen.C11.convTable p == some .int || convKindAt Gen.C11.convTable p == some .optionalInt) = true →
        (p == ["workflowAttributes".toList, "repeatInterval".toList] || !floatAdmittedAt p) = true := by
  decide +kernel

/-- … and there are such options (the list is not empty: at least nine) -/
theorem int_converted_options_exist :
    (Gen.C11.optionPaths.filter (fun p =>
      (convKindAt Gen.C11.convTable p == some .int || convKindAt Gen.C11.convTable p == some .optionalInt)
        && !floatAdmittedAt p)).length ≥ 9 := by
  decide +kernel

/-! ## Non-vacuity: concrete documents -/

private def c (stage : Nat) (name : String) (refs : List Id) (vars : List (S × List S)) (uses : List S) : Comp :=
  { stage := stage, name := name.toList, refs := refs, argRefs := refs, opts := .dict [], vars := vars, uses := uses }

/-- diamond over two stages, a loop iteration `0#it` referenced through its placeholder, chained variables -/
private def good : Doc :=
  { comps := [c 0 "src" [] [] ["g".toList],
              c 0 "left" [(0, "src".toList)] [("a".toList, ["g".toList])] ["a".toList],
              c 0 "right" [(0, "src".toList)] [] [],
              c 1 "0#it" [(0, "left".toList)] [] [],
              c 1 "join" [(0, "left".toList), (0, "right".toList), (1, "it".toList)] [] []],
    globals := [("g".toList, [])] }

example : validate Gen.C11.convTable Gen.C11.componentSchema good = [] := by decide +kernel
example : (compEdges good).length = 5 ∧ placeholders good = [(1, "it".toList)] ∧
    placeholderEdges good = [((1, "0#it".toList), (1, "join".toList))] := by decide

private def withComps (cs : List Comp) : Doc := { good with comps := cs }

/-- each fault class is inhabited by a single-fault variant of `good`, and is rejected -/
example : dangling (withComps (good.comps.drop 1)) :=
  ⟨c 0 "left" [(0, "src".toList)] [("a".toList, ["g".toList])] ["a".toList], .head _, (0, "src".toList),
   .head _, by decide⟩
example : duplicate (withComps (good.comps ++ [c 0 "src" [] [] []])) := by unfold duplicate; decide
example : cyclic (withComps (c 0 "src" [(1, "join".toList)] [] [] :: good.comps.drop 1)) :=
  ⟨(0, "src".toList), .step (b := (0, "left".toList)) (by decide)
    (.step (b := (1, "join".toList)) (by decide) (.edge (by decide)))⟩
example : validate Gen.C11.convTable Gen.C11.componentSchema
    (withComps (c 0 "src" [(1, "join".toList)] [] [] :: good.comps.drop 1)) = [Err.cycle] := by decide +kernel
example : undefinedVar { good with globals := [] } := by
  refine ⟨c 0 "src" [] [] ["g".toList], .head _, "g".toList, .head _, ?_⟩
  intro h; cases h with | mk _ used hl _ => simp [defsOf, c, lookup, good, userStage, userGlobals, sectionOf] at hl
example : (validate Gen.C11.convTable Gen.C11.componentSchema { good with globals := [] }).isEmpty = false := by
  decide +kernel

/-! ### scoped variables: the workflow's stage sections, a platform, two user variables files -/

/-- two stages; `seed` comes from the user's files only: the first file defines it for stage 0, the second one
for stage 1 (and overrides `g` globally); `q` is a stage variable of the workflow for stage 1, `p` one of the
active platform for stage 0 -/
private def scopedDoc : Doc :=
  { comps := [c 0 "produce" [] [] ["seed".toList, "p".toList, "g".toList],
              c 1 "consume" [(0, "produce".toList)] [] ["seed".toList, "q".toList]],
    globals := [("g".toList, [])],
    stageVars := [(1, [("q".toList, ["g".toList])])],
    platStageVars := [(0, [("p".toList, [])])],
    userFiles := [{ stages := [(0, [("seed".toList, [])])] },
                  { globals := [("g".toList, [])], stages := [(1, [("seed".toList, ["g".toList])])] }] }

example : validate Gen.C11.convTable Gen.C11.componentSchema scopedDoc = [] := by decide +kernel

/-- the single fault "the second file no longer defines `seed` for stage 1": `seed` is defined for stage 0 only,
`consume` (stage 1) mentions an undefined variable, the workflow is rejected -/
private def scopedFault : Doc :=
  { scopedDoc with userFiles := [{ stages := [(0, [("seed".toList, [])])] }, { globals := [("g".toList, [])] }] }

example : validate Gen.C11.convTable Gen.C11.componentSchema scopedFault
    = [Err.undefinedVariable (1, "consume".toList) "seed".toList] := by decide +kernel
example : validate Gen.C11.convTable Gen.C11.componentSchema scopedFault ≠ [] :=
  varOfOtherStage_rejected _ _ scopedFault (c 1 "consume" [(0, "produce".toList)] [] ["seed".toList, "q".toList])
    "seed".toList (.tail _ (.head _)) (.head _) (by decide) (by decide) (by decide) (by decide) (by decide)
    (by decide) (by decide)
/-- … and so is the same definition moved to the section of the wrong stage, in the workflow or for the platform -/
example : (validate Gen.C11.convTable Gen.C11.componentSchema
    { scopedDoc with stageVars := [(0, [("q".toList, ["g".toList])])] }).isEmpty = false := by decide +kernel
example : (validate Gen.C11.convTable Gen.C11.componentSchema
    { scopedDoc with platStageVars := [(1, [("p".toList, [])])] }).isEmpty = false := by decide +kernel

/-! ### replication -/

private def cr (name : String) (refs : List Id) (repl : Option Nat) (agg : Bool) : Comp :=
  { (c 0 name refs [] []) with replicate := repl, aggregate := agg }

/-- `gen` (2 replicas) → `sim` → `red` (aggregating) → `post`, next to hand-written `prep0`/`prep1` -/
private def mapReduce : Doc :=
  { comps := [cr "gen" [] (some 2) false, cr "sim" [(0, "gen".toList)] none false,
              cr "red" [(0, "sim".toList), (0, "prep1".toList)] none true, cr "post" [(0, "red".toList)] none false,
              cr "prep0" [] none false, cr "prep1" [(0, "prep0".toList)] none false],
    globals := [] }

example : validate Gen.C11.convTable Gen.C11.componentSchema mapReduce = [] := by decide +kernel
example : ids (expandDoc mapReduce) =
    [(0, "gen0".toList), (0, "gen1".toList), (0, "sim0".toList), (0, "sim1".toList), (0, "red".toList),
     (0, "post".toList), (0, "prep0".toList), (0, "prep1".toList)] := by decide +kernel
example : edges (expandDoc mapReduce) =
    [((0, "gen0".toList), (0, "sim0".toList)), ((0, "gen1".toList), (0, "sim1".toList)),
     ((0, "sim0".toList), (0, "red".toList)), ((0, "sim1".toList), (0, "red".toList)),
     ((0, "prep1".toList), (0, "red".toList)), ((0, "red".toList), (0, "post".toList)),
     ((0, "prep0".toList), (0, "prep1".toList))] := by decide +kernel
example : placeholders mapReduce = [] := by decide

/-- the single fault "`gen` consumes `red`": the cycle passes through the aggregating component -/
private def mapReduceCycle : Doc :=
  { mapReduce with comps := cr "gen" [(0, "red".toList)] (some 2) false :: mapReduce.comps.drop 1 }

example : cyclicExpanded mapReduceCycle :=
  ⟨(0, "red".toList), .step (b := (0, "gen0".toList)) (by decide +kernel)
    (.step (b := (0, "sim0".toList)) (by decide +kernel) (.edge (by decide +kernel)))⟩
example : validate Gen.C11.convTable Gen.C11.componentSchema mapReduceCycle = [Err.cycle] := by decide +kernel

/-- a hand-written `gen1` next to the replicated `gen`; a third source with another count feeding `red` -/
example : duplicateExpanded { mapReduce with comps := mapReduce.comps ++ [cr "gen1" [] none false] } := by
  unfold duplicateExpanded; decide +kernel
example : validate Gen.C11.convTable Gen.C11.componentSchema
    { mapReduce with comps := mapReduce.comps ++ [cr "gen1" [] none false] }
    = [Err.duplicateAfterReplication (0, "gen1".toList)] := by decide +kernel
example : inconsistentReplicate
    { comps := [cr "ga" [] (some 2) false, cr "gb" [] (some 3) false,
                cr "red" [(0, "ga".toList), (0, "gb".toList)] none true], globals := [] } :=
  ⟨cr "red" [(0, "ga".toList), (0, "gb".toList)] none true, .tail _ (.tail _ (.head _)), by decide +kernel⟩

private def withOpts (o : Val) : Doc :=
  { comps := [{ (c 0 "src" [] [] []) with opts := o }], globals := [] }

private def smallSchema : Schema :=
  .dict [("workflowAttributes".toList, false, .dict [("restartHookOn".toList, false, .many (.ty [.str]))]),
         ("resourceRequest".toList, false,
            .dict [("numberThreads".toList, false, .or [.ty [.int], .pred .isVarReference])])]

example : unknownKey [] smallSchema
    (withOpts (.dict [("workflowAttributes".toList, .dict [("restart-hook-on".toList, .list [])])])) := by
  refine ⟨_, .head _, fun o ho => ?_⟩
  have : convert (.node []) (.dict [("workflowAttributes".toList, .dict [("restart-hook-on".toList, .list [])])])
      = some (.dict [("workflowAttributes".toList, .dict [("restart-hook-on".toList, .list [])])]) := rfl
  simp only [withOpts, c] at ho
  rw [this] at ho; cases ho
  exact .deeper (k := "workflowAttributes".toList) (.head _) rfl
    (.here (k := "restart-hook-on".toList) (.head _) (by decide))

example : wrongType [] smallSchema
    (withOpts (.dict [("resourceRequest".toList, .dict [("numberThreads".toList, .list [.str "zzz".toList])])])) := by
  refine ⟨_, .head _, fun o ho => ?_⟩
  have : convert (.node []) (.dict [("resourceRequest".toList, .dict [("numberThreads".toList, .list [.str "zzz".toList])])])
      = some (.dict [("resourceRequest".toList, .dict [("numberThreads".toList, .list [.str "zzz".toList])])]) := rfl
  simp only [withOpts, c] at ho
  rw [this] at ho; cases ho
  exact .deeper (k := "resourceRequest".toList) (.tail _ (.head _)) rfl (fun h => by cases h)
    (.deeper (k := "numberThreads".toList) (.head _) rfl (fun h => by cases h) (.here rfl))

/-- the same two faults against the schema and conversion table of the source -/
example : (validate Gen.C11.convTable Gen.C11.componentSchema
    (withOpts (.dict [("workflowAttributes".toList, .dict [("restart-hook-on".toList, .list [])])]))).isEmpty = false := by
  decide +kernel
example : (validate Gen.C11.convTable Gen.C11.componentSchema
    (withOpts (.dict [("resourceRequest".toList, .dict [("numberThreads".toList, .list [.str "zzz".toList])])]))).isEmpty
    = false := by
  decide +kernel

/-! ### floats for integer options -/

private def rrOpts (key : String) (v : Val) : Val := .dict [("resourceRequest".toList, .dict [(key.toList, v)])]

/-- `numberProcesses: 2.5` and `gpus: 3.0` are instances of the fault class, and rejected; `numberProcesses: 2`,
`walltime: 2.5` and `memory: 2.5` load -/
example : floatMistyped Gen.C11.componentSchema (withOpts (rrOpts "numberProcesses" (.float 2 true))) :=
  ⟨_, .head _, floatAt_treeAt ["resourceRequest".toList, "numberProcesses".toList] _
    (.or [.ty [.int], .pred .isVarReference]) 2 true rfl rfl⟩
example : validate Gen.C11.convTable Gen.C11.componentSchema (withOpts (rrOpts "numberProcesses" (.float 2 true)))
    = [Err.option (0, "src".toList) .valueInvalid] := by decide +kernel
example : validate Gen.C11.convTable Gen.C11.componentSchema (withOpts (rrOpts "gpus" (.float 3 false)))
    = [Err.option (0, "src".toList) .valueInvalid] := by decide +kernel
example : validate Gen.C11.convTable Gen.C11.componentSchema (withOpts (rrOpts "numberProcesses" (.int 2))) = [] := by
  decide +kernel
example : validate Gen.C11.convTable Gen.C11.componentSchema (withOpts (rrOpts "memory" (.float 2 true))) = [] := by
  decide +kernel
example : validate Gen.C11.convTable Gen.C11.componentSchema
    (withOpts (.dict [("resourceManager".toList, .dict [("config".toList, .dict [("walltime".toList, .float 2 true)])])]))
    = [] := by decide +kernel

/-! ### a package with a DoWhile document -/

private def tc (stage : Nat) (name : String) (refs : List Id) (uses : List S) : TComp :=
  { stage := stage, name := name.toList, refs := refs, opts := .dict [], vars := [], uses := uses }

/-- `dummy` (stage 0) feeds the loop imported at stage 1: `add` reads the input binding `number` (bound to `dummy`,
loop-bound to `fake`), `fake` reads `add`, `stop` (document stage 1) reads `fake` and produces the condition;
`report` (stage 3) consumes `add` and `stop` through their placeholders -/
private def loopPkg (loopBinding : Id) : Package :=
  { main := { comps := [c 0 "dummy" [] [] [], c 3 "report" [(1, "add".toList), (2, "stop".toList)] [] []],
              globals := [("g".toList, [])] },
    loops := [{ stage := 1, name := "looper".toList, inputs := ["number".toList],
                bindings := [("number".toList, (0, "dummy".toList))],
                loopBindings := [("number".toList, loopBinding)], cond := (1, "stop".toList),
                comps := [tc 0 "add" [(0, "number".toList)] ["loopIteration".toList],
                          tc 0 "fake" [(0, "add".toList)] ["g".toList],
                          tc 1 "stop" [(0, "fake".toList)] []] }] }

private def goodLoop : Package := loopPkg (0, "fake".toList)

example : validateP Gen.C11.convTable Gen.C11.componentSchema goodLoop = [] := by decide +kernel
example : ids (flatten goodLoop) =
    [(0, "dummy".toList), (3, "report".toList), (1, "0#add".toList), (1, "0#fake".toList), (2, "0#stop".toList)] := by
  decide +kernel
/-- iteration 1: `1#add` reads `0#fake` (the loop binding), `1#fake` reads `1#add` -/
example : (inst (goodLoop.loops.head!) 1).map (fun c => (c.id, c.refs)) =
    [((1, "1#add".toList), [(1, "0#fake".toList)]), ((1, "1#fake".toList), [(1, "1#add".toList)]),
     ((2, "1#stop".toList), [(1, "1#fake".toList)])] := by decide +kernel
/-- the single faults "the loop binding names a component that does not exist / of a stage the loop does not
have / outside the loop" are rejected when the package is loaded -/
example : danglingLoopBinding (loopPkg (0, "fak".toList)) :=
  ⟨_, .head _, _, .head _, by decide +kernel⟩
example : validateP Gen.C11.convTable Gen.C11.componentSchema (loopPkg (0, "fak".toList))
    = [.loop (1, "looper".toList) (.loopBindingUnknown "number".toList (0, "fak".toList))] := by decide +kernel
example : (validateP Gen.C11.convTable Gen.C11.componentSchema (loopPkg (2, "fake".toList))).isEmpty = false := by
  decide +kernel
example : (validateP Gen.C11.convTable Gen.C11.componentSchema (loopPkg (2, "report".toList))).isEmpty = false := by
  decide +kernel
/-- … while the references of iteration 1 of such a package would dangle: `1#add` would read `0#fak` -/
example : (inst ((loopPkg (0, "fak".toList)).loops.head!) 1).all
    (fun c => c.refs.all (refResolves (unrolled (loopPkg (0, "fak".toList)) (loopPkg (0, "fak".toList)).loops.head! 1)))
    = false := by decide +kernel
/-- the single fault "`dummy`, the source of the input binding, consumes the looped `add`": a cycle through the
placeholder `stage1.add`, reported by the cycle check -/
example : validateP Gen.C11.convTable Gen.C11.componentSchema
    { goodLoop with main := { goodLoop.main with comps :=
        [c 0 "dummy" [(1, "add".toList)] [] [], c 3 "report" [(1, "add".toList), (2, "stop".toList)] [] []] } }
    = [.doc .cycle] := by decide +kernel
/-- a dangling condition, a dangling reference of a looped component -/
example : danglingCondition { goodLoop with loops := goodLoop.loops.map (fun l => { l with cond := (0, "stop".toList) }) } :=
  ⟨_, .head _, by decide +kernel⟩
example : (validateP Gen.C11.convTable Gen.C11.componentSchema
    { goodLoop with loops := goodLoop.loops.map (fun l =>
        { l with comps := l.comps ++ [tc 1 "extra" [(0, "ghost".toList)] []] }) }).isEmpty = false := by decide +kernel

/-! ### the importing entry as the target of a reference -/

/-- `report` written as "consume the loop": it references the entry `stage1.looper` instead of a looped component -/
private def entryRef : Package :=
  { goodLoop with main := { goodLoop.main with comps :=
      [c 0 "dummy" [] [] [], c 3 "report" [(1, "looper".toList)] [] []] } }

example : referenceToImportEntry entryRef :=
  ⟨_, .tail _ (.head _), _, .head _, by decide +kernel⟩
example : validateP Gen.C11.convTable Gen.C11.componentSchema entryRef
    = [.doc (.unknownReference (3, "report".toList) (1, "looper".toList))] := by decide +kernel
/-- the input binding `number` bound to the entry itself: `0#add` reads it, the reference is reported -/
example : (validateP Gen.C11.convTable Gen.C11.componentSchema
    { goodLoop with loops := goodLoop.loops.map (fun l =>
        { l with bindings := [("number".toList, (1, "looper".toList))] }) }).isEmpty = false := by decide +kernel

end St4sd.C11
