import St4sd.Model.Validate
import St4sd.Gen.C11
/-!
# C11 — A workflow that loads is structurally executable; a broken one is rejected

`validate tbl sch d = []` is "the workflow loads with validation enabled" (model: `Model/Validate.lean`,
tied to the real loader by `harness/c11.py` on every run).  All theorems are for every conversion table,
every schema and every document, unless they mention the generated `Gen.C11` constants (pin theorems).
-/
namespace St4sd.C11
open St4sd.ValSchema St4sd.Validate

/-! ## Specification-side notions (independent of the algorithms in the model) -/

/-- `Resolves defs v`: `%(v)s` can be substituted completely — `v` is defined and every variable its value
mentions resolves (a finite derivation, so no circular definition is involved). -/
inductive Resolves (defs : List (S × List S)) : S → Prop where
  | mk (v : S) (used : List S) : lookup v defs = some used → (∀ u ∈ used, Resolves defs u) → Resolves defs v

/-- one or more edges lead from `a` to `b` -/
inductive Reach (es : List (Id × Id)) : Id → Id → Prop where
  | edge {a b} : (a, b) ∈ es → Reach es a b
  | step {a b c} : (a, b) ∈ es → Reach es b c → Reach es a c

/-- the fault classes of the property text -/
def dangling (d : Doc) : Prop := ∃ c ∈ d.comps, ∃ r ∈ c.refs, refResolves d r = false
def duplicate (d : Doc) : Prop := ¬ (ids d).Nodup
def cyclic (d : Doc) : Prop := ∃ v, Reach (edges d) v v
def undefinedVar (d : Doc) : Prop := ∃ c ∈ d.comps, ∃ v ∈ c.uses, ¬ Resolves (defsOf d c) v
/-- some option tree of the document, after the type conversion, has a key its schema does not know (at the top
level or anywhere below known keys), or cannot be converted at all -/
inductive UnknownKey : Schema → Val → Prop where
  | here {entries kvs k v} : (k, v) ∈ kvs → (keysOf entries).contains k = false →
      UnknownKey (.dict entries) (.dict kvs)
  | deeper {entries kvs k o s v} : (k, o, s) ∈ entries → lookup k kvs = some v → UnknownKey s v →
      UnknownKey (.dict entries) (.dict kvs)
def unknownKey (tbl : List (S × Conv)) (sch : Schema) (d : Doc) : Prop :=
  ∃ c ∈ d.comps, ∀ o, convert (.node tbl) c.opts = some o → UnknownKey sch o

/-- "the value has a type its declaration admits", one level deep: constants/types/predicates by kind, a
collection where a collection is declared, some alternative of a `ValidateOr` validates the value.
(`ValidateOptional` values are not judged.) -/
def admits : Schema → Val → Bool
  | .null, v => (match v with | .null => true | _ => false)
  | .const c, v => (match v with | .str s => s = c | _ => false)
  | .ty ts, v => ts.any (·.admits v)
  | .pred p, v => p.holds v
  | .opt _, _ => true
  | .or alts, v => checkAny alts v
  | .many _, v => (match v with | .list _ => true | _ => false)
  | .dict _, v => (match v with | .dict _ => true | _ => false)

/-- a wrongly typed value somewhere in an option tree (below known keys) -/
inductive WrongType : Schema → Val → Prop where
  | here {s v} : admits s v = false → WrongType s v
  | deeper {entries kvs k o s v} : (k, o, s) ∈ entries → lookup k kvs = some v → v ≠ .null → WrongType s v →
      WrongType (.dict entries) (.dict kvs)
def wrongType (tbl : List (S × Conv)) (sch : Schema) (d : Doc) : Prop :=
  ∃ c ∈ d.comps, ∀ o, convert (.node tbl) c.opts = some o → WrongType sch o

/-! ## Kahn's algorithm -/

private def Inv (es : List (Id × Id)) (ranks : List (Id × Nat)) (r : Nat) : Prop :=
  (∀ v k, rankOf ranks v = some k → k < r) ∧
  (∀ e ∈ es, ∀ k, rankOf ranks e.2 = some k → ∃ j, rankOf ranks e.1 = some j ∧ j < k)

private theorem rankOf_new (new : List Id) (r : Nat) (ranks : List (Id × Nat)) (v : Id) :
    rankOf (new.map (fun x => (x, r)) ++ ranks) v = if v ∈ new then some r else rankOf ranks v := by
  induction new with
  | nil => simp
  | cons x xs ih =>
    unfold rankOf at ih ⊢
    simp only [List.map_cons, List.cons_append, List.find?_cons]
    by_cases h : x = v
    · subst h; simp
    · have h' : (x == v) = false := by simpa using h
      have h'' : ¬ v = x := fun e => h e.symm
      simp only [h', List.mem_cons, h'', false_or]
      exact ih

private theorem mem_ready {es ranks nodes v} (h : v ∈ ready es ranks nodes) :
    isRanked ranks v = false ∧ ∀ e ∈ es, e.2 = v → isRanked ranks e.1 = true := by
  unfold ready at h
  rw [List.mem_filter] at h
  obtain ⟨_, h⟩ := h
  simp only [Bool.and_eq_true, Bool.not_eq_true', List.all_eq_true, Bool.or_eq_true] at h
  refine ⟨h.1, fun e he hv => ?_⟩
  rcases h.2 e he with h1 | h1
  · simp [hv] at h1
  · exact h1

private theorem inv_step {es ranks r nodes} (hinv : Inv es ranks r) :
    Inv es ((ready es ranks nodes).map (fun x => (x, r)) ++ ranks) (r + 1) := by
  obtain ⟨h1, h2⟩ := hinv
  refine ⟨fun v k hk => ?_, fun e he k hk => ?_⟩
  · rw [rankOf_new] at hk
    split at hk
    · cases hk; omega
    · have := h1 v k hk; omega
  · rw [rankOf_new] at hk
    rw [rankOf_new]
    split at hk
    · rename_i hmem
      cases hk
      have hr := (mem_ready hmem).2 e he rfl
      have hnot : e.1 ∉ ready es ranks nodes := fun hm => by
        have := (mem_ready hm).1; rw [hr] at this; cases this
      rw [if_neg hnot]
      unfold isRanked at hr
      cases hj : rankOf ranks e.1 with
      | none => rw [hj] at hr; cases hr
      | some j => exact ⟨j, rfl, h1 _ _ hj⟩
    · obtain ⟨j, hj, hlt⟩ := h2 e he k hk
      have hnot : e.1 ∉ ready es ranks nodes := fun hm => by
        have := (mem_ready hm).1; unfold isRanked at this; rw [hj] at this; cases this
      rw [if_neg hnot]
      exact ⟨j, hj, hlt⟩

private theorem kahn_inv (es : List (Id × Id)) (nodes : List Id) (fuel r : Nat) (ranks : List (Id × Nat))
    (hinv : Inv es ranks r) : ∃ r', Inv es (kahn es nodes fuel r ranks) r' := by
  induction fuel generalizing r ranks with
  | zero => exact ⟨r, hinv⟩
  | succ n ih =>
    unfold kahn
    split
    · exact ⟨r, hinv⟩
    · rename_i v vs hready
      have := inv_step (nodes := nodes) hinv
      rw [hready] at this
      exact ih (r + 1) _ this

/-- **kahn_sound** (full): whatever the fuel, the ranks computed by Kahn's algorithm increase strictly along
every edge whose consumer got a rank. -/
theorem kahn_sound (es : List (Id × Id)) (nodes : List Id) (fuel : Nat) :
    ∀ e ∈ es, ∀ k, rankOf (kahn es nodes fuel 0 []) e.2 = some k →
      ∃ j, rankOf (kahn es nodes fuel 0 []) e.1 = some j ∧ j < k := by
  have h0 : Inv es [] 0 := ⟨fun v k h => by simp [rankOf] at h, fun e _ k h => by simp [rankOf] at h⟩
  obtain ⟨_, _, h⟩ := kahn_inv es nodes fuel 0 [] h0
  exact h

/-- if every node is ranked there is a rank function that increases strictly along every edge -/
theorem acyclicB_rank (d : Doc) (h : acyclicB d = true) :
    ∃ rank : Id → Nat, ∀ e ∈ edges d, rank e.1 < rank e.2 := by
  refine ⟨fun v => (rankOf (kahnRanks d) v).getD 0, fun e he => ?_⟩
  have hcons : e.2 ∈ ids d := by
    unfold edges at he
    rw [List.mem_flatMap] at he
    obtain ⟨c, hc, hm⟩ := he
    rw [List.mem_map] at hm
    obtain ⟨r, _, rfl⟩ := hm
    exact List.mem_map_of_mem hc
  unfold acyclicB at h
  rw [List.all_eq_true] at h
  have hr := h _ hcons
  unfold isRanked at hr
  cases hk : rankOf (kahnRanks d) e.2 with
  | none => rw [hk] at hr; cases hr
  | some k =>
    obtain ⟨j, hj, hlt⟩ := kahn_sound (edges d) (ids d) (ids d).length e he k hk
    show (rankOf (kahnRanks d) e.1).getD 0 < (rankOf (kahnRanks d) e.2).getD 0
    unfold kahnRanks at hk ⊢
    rw [hj, hk]; exact hlt

private theorem reach_rank {es : List (Id × Id)} {rank : Id → Nat} (h : ∀ e ∈ es, rank e.1 < rank e.2)
    {a b : Id} (hr : Reach es a b) : rank a < rank b := by
  induction hr with
  | edge he => exact h _ he
  | step he _ ih => exact Nat.lt_trans (h _ he) ih

/-- a rank function that increases along every edge excludes every cycle -/
theorem rank_excludes_cycle {es : List (Id × Id)} {rank : Id → Nat} (h : ∀ e ∈ es, rank e.1 < rank e.2) :
    ¬ ∃ v, Reach es v v := fun ⟨_, hr⟩ => Nat.lt_irrefl _ (reach_rank h hr)

/-! ## variables -/

theorem resolveVar_sound (defs : List (S × List S)) (fuel : Nat) (v : S) (h : resolveVar defs fuel v = true) :
    Resolves defs v := by
  induction fuel generalizing v with
  | zero => simp [resolveVar] at h
  | succ n ih =>
    unfold resolveVar at h
    split at h
    · cases h
    · rename_i used hl
      rw [List.all_eq_true] at h
      exact Resolves.mk v used hl (fun u hu => ih u (h u hu))

/-! ## decomposition of `validate d = []` -/

private theorem dupErrors_nil (l : List Id) (h : dupErrors l = []) : l.Nodup := by
  induction l with
  | nil => exact List.nodup_nil
  | cons i rest ih =>
    unfold dupErrors at h
    rw [List.append_eq_nil_iff] at h
    obtain ⟨h1, h2⟩ := h
    refine List.nodup_cons.mpr ⟨fun hm => ?_, ih h2⟩
    have : rest.contains i = true := by simpa using hm
    rw [if_pos this] at h1
    cases h1

private theorem validate_nil {tbl sch} {d : Doc} (h : validate tbl sch d = []) :
    dupErrors (ids d) = [] ∧ (∀ c ∈ d.comps, compErrors tbl sch d c = []) ∧ acyclicB d = true := by
  unfold validate at h
  rw [List.append_eq_nil_iff, List.append_eq_nil_iff] at h
  obtain ⟨⟨h1, h2⟩, h3⟩ := h
  refine ⟨h1, fun c hc => ?_, ?_⟩
  · rw [List.flatMap_eq_nil_iff] at h2
    exact h2 c hc
  · cases hb : acyclicB d with
    | true => rfl
    | false => rw [hb] at h3; cases h3

private theorem compErrors_nil {tbl sch} {d : Doc} {c : Comp} (h : compErrors tbl sch d c = []) :
    optErrors tbl sch c.opts = [] ∧ (∀ r ∈ c.refs, refResolves d r = true) ∧
    (∀ r ∈ c.argRefs, r ∈ c.refs) ∧ (∀ v ∈ c.uses, Resolves (defsOf d c) v) := by
  unfold compErrors at h
  rw [List.append_eq_nil_iff, List.append_eq_nil_iff] at h
  obtain ⟨⟨h1, h2⟩, h3⟩ := h
  unfold refErrors at h2
  rw [List.append_eq_nil_iff] at h2
  obtain ⟨h2a, h2b⟩ := h2
  refine ⟨List.map_eq_nil_iff.mp h1, fun r hr => ?_, fun r hr => ?_, fun v hv => ?_⟩
  · have := List.map_eq_nil_iff.mp h2a
    rw [List.filter_eq_nil_iff] at this
    simpa using this r hr
  · have := List.map_eq_nil_iff.mp h2b
    rw [List.filter_eq_nil_iff] at this
    simpa using this r hr
  · unfold varErrors at h3
    have := List.map_eq_nil_iff.mp h3
    rw [List.filter_eq_nil_iff] at this
    have hv' := this v hv
    simp only [Bool.not_eq_true', Bool.not_eq_false] at hv'
    exact resolveVar_sound _ _ _ hv'

/-! ## Soundness: accepted implies usable -/

/-- **accepted_is_usable** (full): if the workflow loads then its identifiers are unique, every declared
component reference points to an existing component or loop placeholder, every component reference used in a
command line is declared, the graph is acyclic (a rank function increases strictly along every producer →
consumer edge, hence no cycle), every variable a component mentions resolves, and the options of every
component convert and satisfy the schema. -/
theorem accepted_is_usable (tbl : List (S × Conv)) (sch : Schema) (d : Doc) (h : validate tbl sch d = []) :
    (ids d).Nodup ∧
    (∀ c ∈ d.comps, ∀ r ∈ c.refs, r ∈ ids d ∨ r ∈ placeholders d) ∧
    (∀ c ∈ d.comps, ∀ r ∈ c.argRefs, r ∈ c.refs) ∧
    (∃ rank : Id → Nat, ∀ e ∈ edges d, rank e.1 < rank e.2) ∧
    (¬ ∃ v, Reach (edges d) v v) ∧
    (∀ c ∈ d.comps, ∀ v ∈ c.uses, Resolves (defsOf d c) v) ∧
    (∀ c ∈ d.comps, optErrors tbl sch c.opts = []) := by
  obtain ⟨h1, h2, h3⟩ := validate_nil h
  obtain ⟨rank, hrank⟩ := acyclicB_rank d h3
  refine ⟨dupErrors_nil _ h1, fun c hc r hr => ?_, fun c hc => (compErrors_nil (h2 c hc)).2.2.1,
          ⟨rank, hrank⟩, rank_excludes_cycle hrank, fun c hc => (compErrors_nil (h2 c hc)).2.2.2,
          fun c hc => (compErrors_nil (h2 c hc)).1⟩
  have := (compErrors_nil (h2 c hc)).2.1 r hr
  unfold refResolves at this
  simpa using this

/-! ## Completeness per fault class -/

theorem dangling_rejected (tbl sch) (d : Doc) (hf : dangling d) : validate tbl sch d ≠ [] := by
  intro h
  obtain ⟨c, hc, r, hr, hres⟩ := hf
  have := (compErrors_nil ((validate_nil h).2.1 c hc)).2.1 r hr
  rw [hres] at this; cases this

theorem duplicate_rejected (tbl sch) (d : Doc) (hf : duplicate d) : validate tbl sch d ≠ [] :=
  fun h => hf (dupErrors_nil _ (validate_nil h).1)

theorem cyclic_rejected (tbl sch) (d : Doc) (hf : cyclic d) : validate tbl sch d ≠ [] := by
  intro h
  obtain ⟨rank, hrank⟩ := acyclicB_rank d (validate_nil h).2.2
  exact rank_excludes_cycle hrank hf

theorem undefinedVar_rejected (tbl sch) (d : Doc) (hf : undefinedVar d) : validate tbl sch d ≠ [] := by
  intro h
  obtain ⟨c, hc, v, hv, hn⟩ := hf
  exact hn ((compErrors_nil ((validate_nil h).2.1 c hc)).2.2.2 v hv)

/-! ## options: unknown keys and wrongly typed values -/

private theorem mem_checkEntries {entries : List (S × Bool × Schema)} {kvs : List (S × Val)} {k o s v}
    (hm : (k, o, s) ∈ entries) (hl : lookup k kvs = some v) (hv : v ≠ .null) (e : SErr) (he : e ∈ check s v) :
    e ∈ checkEntries entries kvs := by
  induction entries with
  | nil => cases hm
  | cons hd rest ih =>
    obtain ⟨k', o', s'⟩ := hd
    rw [checkEntries]
    rw [List.mem_append]
    rcases List.mem_cons.mp hm with h | h
    · left
      cases h
      rw [hl]
      cases v <;> first | exact absurd rfl hv | exact he
    · right; exact ih h

private theorem unknownKey_hard {s : Schema} {v : Val} (h : UnknownKey s v) :
    ∃ e ∈ check s v, e.isMissing = false := by
  induction h with
  | @here entries kvs k v hm hk =>
    refine ⟨.keyUnknown k, ?_, rfl⟩
    rw [check, List.mem_append]
    left
    rw [List.mem_map]
    refine ⟨(k, v), ?_, rfl⟩
    rw [List.mem_filter]
    exact ⟨hm, by simpa using hk⟩
  | @deeper entries kvs k o s v hm hl hu ih =>
    obtain ⟨e, he, hh⟩ := ih
    refine ⟨e, ?_, hh⟩
    rw [check, List.mem_append]
    right
    refine mem_checkEntries hm hl ?_ e he
    cases hu <;> exact fun h => by cases h

private theorem not_admits_hard {s : Schema} {v : Val} (h : admits s v = false) :
    SErr.valueInvalid ∈ check s v := by
  cases s with
  | null => cases v <;> simp_all [admits, check]
  | const c => cases v <;> simp_all [admits, check]
  | ty ts => simp only [admits] at h; simp [check, h]
  | pred p => simp only [admits] at h; simp [check, h]
  | opt s => simp [admits] at h
  | or alts => simp only [admits] at h; simp [check, h]
  | many s => cases v <;> simp_all [admits, check]
  | dict es => cases v <;> simp_all [admits, check]

private theorem wrongType_hard {s : Schema} {v : Val} (h : WrongType s v) :
    ∃ e ∈ check s v, e.isMissing = false := by
  induction h with
  | here h => exact ⟨.valueInvalid, not_admits_hard h, rfl⟩
  | @deeper entries kvs k o s v hm hl hv _ ih =>
    obtain ⟨e, he, hh⟩ := ih
    refine ⟨e, ?_, hh⟩
    rw [check, List.mem_append]
    right
    exact mem_checkEntries hm hl hv e he

private theorem optErrors_nil {tbl sch opts} (h : optErrors tbl sch opts = []) :
    ∃ o, convert (.node tbl) opts = some o ∧ ∀ e ∈ check sch o, e.isMissing = true := by
  unfold optErrors at h
  split at h
  · cases h
  · rename_i o ho
    refine ⟨o, ho, fun e he => ?_⟩
    rw [List.filter_eq_nil_iff] at h
    simpa using h e he

theorem unknownKey_rejected (tbl sch) (d : Doc) (hf : unknownKey tbl sch d) : validate tbl sch d ≠ [] := by
  intro h
  obtain ⟨c, hc, hu⟩ := hf
  obtain ⟨o, ho, hall⟩ := optErrors_nil (compErrors_nil ((validate_nil h).2.1 c hc)).1
  obtain ⟨e, he, hh⟩ := unknownKey_hard (hu o ho)
  rw [hall e he] at hh; cases hh

theorem wrongType_rejected (tbl sch) (d : Doc) (hf : wrongType tbl sch d) : validate tbl sch d ≠ [] := by
  intro h
  obtain ⟨c, hc, hu⟩ := hf
  obtain ⟨o, ho, hall⟩ := optErrors_nil (compErrors_nil ((validate_nil h).2.1 c hc)).1
  obtain ⟨e, he, hh⟩ := wrongType_hard (hu o ho)
  rw [hall e he] at hh; cases hh

/-! ## Pin theorems on the constants regenerated from the source (`Gen/C11.lean`) -/

/-- Every option key of the schema in the source, misspelled (one letter appended) in an otherwise empty
component, is reported — "misspell each option" follows the code. -/
theorem every_misspelled_option_reported :
    ∀ p ∈ Gen.C11.optionPaths,
      (optErrors Gen.C11.convTable Gen.C11.componentSchema (treeAt (misspellLast p) (.str "word".toList))).isEmpty
        = false := by
  decide +kernel

/-- … while no correctly spelled key is reported as unknown (value `None` = "not set"). -/
theorem no_correct_option_reported :
    ∀ p ∈ Gen.C11.optionPaths,
      optErrors Gen.C11.convTable Gen.C11.componentSchema (treeAt p .null) = [] := by
  decide +kernel

/-- No option is converted with Python's builtin `bool`, for which `bool("no")`/`bool("zzz")` is `True`
(see `Witness/C11.lean`; repaired by `fixes/C11-bool-options.diff`). -/
theorem convTable_has_no_builtin_bool : usesBuiltinBoolList Gen.C11.convTable = false := by
  decide +kernel

/-- the repaired converter rejects every word that is not a boolean word -/
theorem toBool_rejects_words (s : S) (v : Val) (h : convLeaf .toBool (.str s) = some v) :
    lower s ∈ ["true".toList, "yes".toList, "false".toList, "no".toList] := by
  simp only [convLeaf] at h
  split at h
  · rename_i h1; simp only [List.contains_eq_mem, List.mem_cons, List.mem_nil_iff, or_false, decide_eq_true_eq] at h1
    rcases h1 with h1 | h1 <;> simp [h1]
  · split at h
    · rename_i _ h1; simp only [List.contains_eq_mem, List.mem_cons, List.mem_nil_iff, or_false, decide_eq_true_eq] at h1
      rcases h1 with h1 | h1 <;> simp [h1]
    · cases h

/-! ## Non-vacuity: concrete documents -/

private def c (stage : Nat) (name : String) (refs : List Id) (vars : List (S × List S)) (uses : List S) : Comp :=
  { stage := stage, name := name.toList, refs := refs, argRefs := refs, opts := .dict [], vars := vars, uses := uses }

/-- diamond over two stages, a loop iteration `0#it` referenced through its placeholder, chained variables -/
private def good : Doc :=
  { comps := [c 0 "src" [] [] ["g".toList],
              c 0 "left" [(0, "src".toList)] [("a".toList, ["g".toList])] ["a".toList],
              c 0 "right" [(0, "src".toList)] [] [],
              c 1 "0#it" [(0, "left".toList)] [] [],
              c 1 "join" [(0, "left".toList), (0, "right".toList), (1, "it".toList)] [] []],
    globals := [("g".toList, [])] }

example : validate Gen.C11.convTable Gen.C11.componentSchema good = [] := by decide +kernel
example : (edges good).length = 5 ∧ placeholders good = [(1, "it".toList)] := by decide

private def withComps (cs : List Comp) : Doc := { good with comps := cs }

/-- each fault class is inhabited by a single-fault variant of `good`, and is rejected -/
example : dangling (withComps (good.comps.drop 1)) :=
  ⟨c 0 "left" [(0, "src".toList)] [("a".toList, ["g".toList])] ["a".toList], .head _, (0, "src".toList),
   .head _, by decide⟩
example : duplicate (withComps (good.comps ++ [c 0 "src" [] [] []])) := by unfold duplicate; decide
example : cyclic (withComps (c 0 "src" [(1, "join".toList)] [] [] :: good.comps.drop 1)) :=
  ⟨(0, "src".toList), .step (b := (0, "left".toList)) (by decide)
    (.step (b := (1, "join".toList)) (by decide) (.edge (by decide)))⟩
example : validate Gen.C11.convTable Gen.C11.componentSchema
    (withComps (c 0 "src" [(1, "join".toList)] [] [] :: good.comps.drop 1)) = [Err.cycle] := by decide +kernel
example : undefinedVar { good with globals := [] } := by
  refine ⟨c 0 "src" [] [] ["g".toList], .head _, "g".toList, .head _, ?_⟩
  intro h; cases h with | mk _ used hl _ => simp [defsOf, c, lookup] at hl
example : (validate Gen.C11.convTable Gen.C11.componentSchema { good with globals := [] }).isEmpty = false := by
  decide +kernel

private def withOpts (o : Val) : Doc :=
  { comps := [{ (c 0 "src" [] [] []) with opts := o }], globals := [] }

private def smallSchema : Schema :=
  .dict [("workflowAttributes".toList, false, .dict [("restartHookOn".toList, false, .many (.ty [.str]))]),
         ("resourceRequest".toList, false,
            .dict [("numberThreads".toList, false, .or [.ty [.int], .pred .isVarReference])])]

example : unknownKey [] smallSchema
    (withOpts (.dict [("workflowAttributes".toList, .dict [("restart-hook-on".toList, .list [])])])) := by
  refine ⟨_, .head _, fun o ho => ?_⟩
  have : convert (.node []) (.dict [("workflowAttributes".toList, .dict [("restart-hook-on".toList, .list [])])])
      = some (.dict [("workflowAttributes".toList, .dict [("restart-hook-on".toList, .list [])])]) := rfl
  simp only [withOpts, c] at ho
  rw [this] at ho; cases ho
  exact .deeper (k := "workflowAttributes".toList) (.head _) rfl
    (.here (k := "restart-hook-on".toList) (.head _) (by decide))

example : wrongType [] smallSchema
    (withOpts (.dict [("resourceRequest".toList, .dict [("numberThreads".toList, .list [.str "zzz".toList])])])) := by
  refine ⟨_, .head _, fun o ho => ?_⟩
  have : convert (.node []) (.dict [("resourceRequest".toList, .dict [("numberThreads".toList, .list [.str "zzz".toList])])])
      = some (.dict [("resourceRequest".toList, .dict [("numberThreads".toList, .list [.str "zzz".toList])])]) := rfl
  simp only [withOpts, c] at ho
  rw [this] at ho; cases ho
  exact .deeper (k := "resourceRequest".toList) (.tail _ (.head _)) rfl (fun h => by cases h)
    (.deeper (k := "numberThreads".toList) (.head _) rfl (fun h => by cases h) (.here rfl))

/-- the same two faults against the schema and conversion table of the source -/
example : (validate Gen.C11.convTable Gen.C11.componentSchema
    (withOpts (.dict [("workflowAttributes".toList, .dict [("restart-hook-on".toList, .list [])])]))).isEmpty = false := by
  decide +kernel
example : (validate Gen.C11.convTable Gen.C11.componentSchema
    (withOpts (.dict [("resourceRequest".toList, .dict [("numberThreads".toList, .list [.str "zzz".toList])])]))).isEmpty
    = false := by
  decide +kernel

end St4sd.C11
