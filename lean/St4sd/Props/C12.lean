import St4sd.Lemmas.C12
import St4sd.Model.RestartKill
/-!
# C12 — Task restarts stay within the configured policy

Theorems about the model `St4sd.Restart` (Model/Restart.lean) of `Engine.restart`,
`RepeatingEngine.restart`, `ComponentState.restart`, `Controller._restartComponent` and
`Controller.postMortemCheck`, for **every** configuration, every start state and every history of task
exits (exit reason, hook answer, CONTROL file, `run()` failing, system stability).  `fin = true` is the
real controller (a refused restart finalises the component), `fin = false` lets the history continue
after a refusal (counters keep being exercised); every theorem holds for both.

The model is the code *after* the two repairs proposed in `fixes/C12-*.diff`; the code as it is in the tree
is `ctrlRestartOld` / `repeatingRestartOld`, refuted in `Witness/C12.lean`.
-/
namespace St4sd.C12
open St4sd.Restart St4sd.Gen

/-! ## Pin theorems: what the property text fixes about the regenerated constants -/

/-- "consecutive re-submissions after failed submissions never exceed five" -/
theorem pin_resubmission_cap : C12.resubmissionCap = 5 := by decide
/-- "three by default" -/
theorem pin_default_max_restarts : C12.defaultMaxRestarts = 3 := by decide
/-- "unlimited only when requested explicitly (-1) or when a restart hook file is named without a maximum" -/
theorem pin_unlimited : C12.unlimited = -1 ∧ C12.defaultMaxRestartsWithHookFile = C12.unlimited := by decide
/-- the model's enumerations are exactly the tables of `codes.py` -/
theorem pin_exit_reasons : Reason.all.map Reason.name = C12.exitReasons := by decide
theorem pin_restart_contexts : RCtx.all.map RCtx.name = C12.restartContexts := by decide
theorem pin_restart_codes : Code.all.map Code.name = C12.restartCodes := by decide
/-- the model's context -> code decision is the one extracted from `Engine.restart` -/
theorem pin_ctx_to_code : RCtx.all.map (fun x => (x.name, (ctxToCode x).name)) = C12.ctxToCode := by decide
theorem pin_run_failure_code : C12.runFailureCode = Code.couldNotInitiate.name := by decide
/-- the schema's `restartHookOn` domain excludes exactly Killed and Cancelled -/
theorem pin_schema_excludes : C12.dontRestartOn = [Reason.killed.name, Reason.cancelled.name] := by decide
theorem reasons_complete (r : Reason) : r ∈ Reason.all := by cases r <;> decide
theorem contexts_complete (x : RCtx) : x ∈ RCtx.all := by cases x <;> decide

/-- Killed/Cancelled are not restartable given the schema's domain of `restartHookOn`. -/
theorem schema_excludes_killed_cancelled (c : Cfg) (hv : schemaValid c = true) :
    Reason.killed ∉ c.hookOn ∧ Reason.cancelled ∉ c.hookOn := by
  simp only [schemaValid, Bool.and_eq_true, List.all_eq_true] at hv
  constructor
  · intro h; have := hv.1 _ h; revert this; decide
  · intro h; have := hv.1 _ h; revert this; decide

/-! ## Unfolding of histories -/

private theorem exec_cons (fin : Bool) (c : Cfg) (s : St) (i : Inp) (is : List Inp) :
    exec fin c s (i :: is) =
      ⟨i.reason, (step fin c s i).2, (step fin c s i).1⟩ :: exec fin c (step fin c s i).1 is := rfl

private theorem final_cons (fin : Bool) (c : Cfg) (s : St) (i : Inp) (is : List Inp) :
    final fin c s (i :: is) = final fin c (step fin c s i).1 is := rfl

private theorem exec_nil (fin : Bool) (c : Cfg) (s : St) : exec fin c s [] = [] := rfl
private theorem final_nil (fin : Bool) (c : Cfg) (s : St) : final fin c s [] = s := rfl

/-! ## The maximum number of restarts -/

/-- `restarts_le_max`: with a limit configured (`max ≠ -1`), the restart counter never exceeds it, at any
point of any history — including histories in which the counter is incremented by refused restarts
(hook says no / fails / cannot be imported, `run()` raises). -/
theorem restarts_le_max (fin : Bool) (c : Cfg) (s : St) (inps : List Inp)
    (hlim : effMax c ≠ C12.unlimited) (h0 : (s.restarts : Int) ≤ effMax c) :
    ∀ e ∈ exec fin c s inps, (e.st.restarts : Int) ≤ effMax c := by
  induction inps generalizing s with
  | nil => intro e he; simp [exec_nil] at he
  | cons i is ih =>
    intro e he
    have hk := (step_ok fin c s i).budget hlim h0
    rw [exec_cons] at he
    rcases List.mem_cons.mp he with rfl | he
    · exact hk
    · exact ih _ hk e he

theorem final_restarts_le_max (fin : Bool) (c : Cfg) (s : St) (inps : List Inp)
    (hlim : effMax c ≠ C12.unlimited) (h0 : (s.restarts : Int) ≤ effMax c) :
    ((final fin c s inps).restarts : Int) ≤ effMax c := by
  induction inps generalizing s with
  | nil => simpa [final_nil] using h0
  | cons i is ih => rw [final_cons]; exact ih _ ((step_ok fin c s i).budget hlim h0)

/-- a schema-valid configuration with a limit has a non-negative one -/
theorem effMax_nonneg (c : Cfg) (hv : schemaValid c = true) (hlim : effMax c ≠ C12.unlimited) : 0 ≤ effMax c := by
  simp only [schemaValid, Bool.and_eq_true] at hv
  have h2 := hv.2
  unfold effMax at *
  cases hm : c.maxRestarts with
  | none =>
    rw [hm] at hlim; simp only at hlim ⊢
    split <;> simp_all [C12.defaultMaxRestarts, C12.defaultMaxRestartsWithHookFile, C12.unlimited]
  | some m =>
    rw [hm] at hlim h2; simp only [decide_eq_true_eq] at hlim h2 ⊢
    simp only [C12.unlimited] at hlim
    omega

/-- … hence from the start of a component's life (`restarts = 0`) the bound holds for every schema-valid
configuration with a limit. -/
theorem restarts_le_max_from_start (fin : Bool) (c : Cfg) (inps : List Inp)
    (hv : schemaValid c = true) (hlim : effMax c ≠ C12.unlimited) :
    ∀ e ∈ exec fin c St.init inps, (e.st.restarts : Int) ≤ effMax c :=
  restarts_le_max fin c St.init inps hlim (by simpa [St.init] using effMax_nonneg c hv hlim)

/-- "three by default": nothing configured and no hook file named ⇒ never more than three. -/
theorem at_most_three_by_default (fin : Bool) (c : Cfg) (inps : List Inp)
    (hm : c.maxRestarts = none) (hf : c.hookFileNamed = false) :
    ∀ e ∈ exec fin c St.init inps, e.st.restarts ≤ 3 := by
  have he : effMax c = 3 := by simp [effMax, hm, hf, C12.defaultMaxRestarts]
  intro e hmem
  have := restarts_le_max fin c St.init inps (by rw [he]; decide) (by rw [he]; decide) e hmem
  rw [he] at this; omega

/-- `unlimited_only_when_requested`: the counter is unbounded only if `maxRestarts = -1` was given or a
restart hook file is named and no maximum was given. -/
theorem unlimited_only_when_requested (c : Cfg) :
    effMax c = C12.unlimited ↔ c.maxRestarts = some (-1) ∨ (c.maxRestarts = none ∧ c.hookFileNamed = true) := by
  unfold effMax
  cases hm : c.maxRestarts with
  | none =>
    cases hf : c.hookFileNamed <;>
      simp [C12.defaultMaxRestarts, C12.defaultMaxRestartsWithHookFile, C12.unlimited]
  | some m => simp [C12.unlimited]

/-- number of times the task was started again for a reason other than a failed submission -/
def restartCount (evs : List Ev) : Nat := (evs.filter Ev.isRestart).length

/-- `run_count_le`: every start of the task for a reason other than SubmissionFailed consumes one unit of
the budget: the number of such starts plus the initial counter is at most the final counter … -/
theorem run_count_le_counter (fin : Bool) (c : Cfg) (s : St) (inps : List Inp) :
    s.restarts + restartCount (exec fin c s inps) ≤ (final fin c s inps).restarts := by
  induction inps generalizing s with
  | nil => simp [exec_nil, final_nil, restartCount]
  | cons i is ih =>
    have hk := step_ok fin c s i
    have := ih (step fin c s i).1
    rw [exec_cons, final_cons]
    simp only [restartCount, List.filter_cons] at this ⊢
    split
    · rename_i h
      simp only [Ev.isRestart, Bool.and_eq_true, decide_eq_true_eq] at h
      have := hk.consumed h.2 h.1
      simp only [List.length_cons]; omega
    · have := hk.restarts_mono; omega

/-- … hence at most the maximum. -/
theorem run_count_le (fin : Bool) (c : Cfg) (s : St) (inps : List Inp)
    (hlim : effMax c ≠ C12.unlimited) (h0 : (s.restarts : Int) ≤ effMax c) :
    ((s.restarts + restartCount (exec fin c s inps) : Nat) : Int) ≤ effMax c := by
  have h1 := run_count_le_counter fin c s inps
  have h2 := final_restarts_le_max fin c s inps hlim h0
  omega

/-! ## Which exits may start the task again -/

/-- `only_listed_reasons` (one step): the task is started (`run()` invoked, or `RestartInitiated` returned)
only when the exit reason is listed in `restartHookOn` or is SubmissionFailed — whatever the hook answers,
whether or not the system is stable. -/
theorem started_only_for_listed (fin : Bool) (c : Cfg) (s : St) (i : Inp)
    (h : s.runs < (step fin c s i).1.runs ∨ (step fin c s i).2 = .initiated) :
    i.reason = .submissionFailed ∨ i.reason ∈ c.hookOn :=
  (step_ok fin c s i).listed h

/-- `only_listed_reasons` over histories. -/
theorem only_listed_reasons (fin : Bool) (c : Cfg) (s : St) (inps : List Inp) :
    ∀ e ∈ exec fin c s inps, e.code = .initiated → e.reason = .submissionFailed ∨ e.reason ∈ c.hookOn := by
  induction inps generalizing s with
  | nil => intro e he; simp [exec_nil] at he
  | cons i is ih =>
    intro e he
    rw [exec_cons] at he
    rcases List.mem_cons.mp he with rfl | he
    · intro h; exact started_only_for_listed fin c s i (Or.inr h)
    · exact ih _ e he

/-- `no_restart_after_kill`: after a killed or cancelled task nothing is started (given the schema's domain
of `restartHookOn`, see `schema_excludes_killed_cancelled`), even when the system is reported unstable. -/
theorem no_restart_after_kill (fin : Bool) (c : Cfg) (s : St) (i : Inp) (hv : schemaValid c = true)
    (hr : i.reason = .killed ∨ i.reason = .cancelled) :
    (step fin c s i).2 ≠ .initiated ∧ (step fin c s i).1.runs = s.runs := by
  obtain ⟨hk, hc⟩ := schema_excludes_killed_cancelled c hv
  have hl := (step_ok fin c s i).listed
  have hm := (step_ok fin c s i).runs_mono
  have key : ¬ (i.reason = .submissionFailed ∨ i.reason ∈ c.hookOn) := by
    rcases hr with hr | hr <;> rw [hr] <;> simp [hk, hc]
  constructor
  · intro h; exact key (hl (Or.inr h))
  · have : ¬ s.runs < (step fin c s i).1.runs := fun h => key (hl (Or.inl h))
    omega

/-- `repeating_at_most_one`: a RepeatingEngine is restarted at most once. -/
theorem repeating_at_most_one (fin : Bool) (c : Cfg) (s : St) (inps : List Inp)
    (hc : c.repeating = true) (h0 : s.restarts ≤ 1) :
    ∀ e ∈ exec fin c s inps, e.st.restarts ≤ 1 := by
  induction inps generalizing s with
  | nil => intro e he; simp [exec_nil] at he
  | cons i is ih =>
    intro e he
    have hk := (step_ok fin c s i).repeating_once hc h0
    rw [exec_cons] at he
    rcases List.mem_cons.mp he with rfl | he
    · exact hk
    · exact ih _ hk e he

/-- a RepeatingEngine is only ever restarted after ResourceExhausted -/
theorem repeating_only_resource_exhausted (fin : Bool) (c : Cfg) (s : St) (i : Inp) (hc : c.repeating = true)
    (h : (step fin c s i).2 = .initiated) : i.reason = .resourceExhausted := by
  have key : ∀ s0 : St, (compRestart false c s0 i).2 = some .initiated → i.reason = .resourceExhausted := by
    intro s0
    unfold compRestart
    split
    · simp
    · simp only [Bool.false_eq_true, if_false]
      unfold repeatingRestart
      repeat' split
      all_goals simp_all
  have h2 : (ctrlRestart c (arrive c s i) i).2 = .initiated := by
    unfold step stepWith stepGen at h
    simp only [] at h
    split at h <;> simp_all
  unfold ctrlRestart at h2
  repeat' split at h2
  all_goals first
    | (simp at h2; done)
    | (apply key (arrive c s i)
       generalize compRestart false c (arrive c s i) i = r at h2
       obtain ⟨a, b⟩ := r
       cases b <;> simp_all [guarded])
/-! ## The cap on consecutive re-submissions -/

theorem resub_invariant (fin : Bool) (c : Cfg) (s : St) (inps : List Inp) (h0 : s.resub ≤ cap) :
    (final fin c s inps).resub ≤ cap := by
  induction inps generalizing s with
  | nil => simpa [final_nil] using h0
  | cons i is ih => rw [final_cons]; exact ih _ ((step_ok fin c s i).resub_inv h0)

private theorem window (fin : Bool) (c : Cfg) (s : St) (win : List Inp) (h0 : s.resub ≤ cap)
    (hw : ∀ e ∈ exec fin c s win, e.isResub = true) : s.resub + win.length ≤ cap := by
  induction win generalizing s with
  | nil => simpa using h0
  | cons i is ih =>
    rw [exec_cons] at hw
    have h1 := hw _ (List.mem_cons_self)
    simp only [Ev.isResub, Bool.and_eq_true, decide_eq_true_eq] at h1
    have hk := (step_ok fin c s i).resub_window h1.2 h1.1
    have := ih (step fin c s i).1 (by omega) (fun e he => hw e (List.mem_cons_of_mem _ he))
    simp only [List.length_cons]; omega

/-- `resubmission_cap`: in any history `pre ++ win ++ …`, if every exit of the window `win` was a failed
submission answered by an initiated re-submission, the window is at most `resubmissionCap` long — also when
`SubmissionFailed ∈ restartHookOn`, for the simulator backend, and whatever happened in `pre`. -/
theorem resubmission_cap (fin : Bool) (c : Cfg) (s : St) (pre win : List Inp) (h0 : s.resub ≤ cap)
    (hw : ∀ e ∈ exec fin c (final fin c s pre) win, e.isResub = true) :
    win.length ≤ C12.resubmissionCap := by
  have h1 := resub_invariant fin c s pre h0
  have := window fin c (final fin c s pre) win h1 hw
  unfold cap at *; omega

/-- … "never exceed five". -/
theorem consecutive_resubmissions_le_five (fin : Bool) (c : Cfg) (pre win : List Inp)
    (hw : ∀ e ∈ exec fin c (final fin c St.init pre) win, e.isResub = true) : win.length ≤ 5 := by
  have := resubmission_cap fin c St.init pre win (by simp [St.init]) hw
  rw [pin_resubmission_cap] at this; exact this


/-! ## Task creation does not end a streak of failed submissions -/

/-- The `taskCreated` event (`SetLaunchTime` after the backend accepted the task) changes no counter. -/
theorem task_creation_keeps_counters (c : Cfg) (s : St) :
    (taskCreated c s).resub = s.resub ∧ (taskCreated c s).restarts = s.restarts ∧
    (taskCreated c s).runs = s.runs ∧ (taskCreated c s).shutdown = s.shutdown := ⟨rfl, rfl, rfl, rfl⟩

/-- From the launch to the exit the streak counter is reset by nothing but a successful task: not by the
creation of a Task object, not by a launch that raises, not by any other exit reason. -/
theorem streak_reset_only_by_success (c : Cfg) (s : St) (i : Inp) (h : i.reason ≠ .success) :
    (arrive c s i).resub = s.resub :=
  (arrive_fields c s i).2.2.2.2 h

/-- number of initiated re-submissions after failed submissions in a list of events -/
def resubCount (evs : List Ev) : Nat := (evs.filter Ev.isResub).length

/-- `resubmissions_without_success_le_cap`: in any stretch of a history in which no task succeeds — whether
the Task objects were created fine and then REPORTED SubmissionFailed (`launch = .task`), or the task generator
raised, whatever other failures, refused restarts and hook answers lie in between — the number of initiated
re-submissions plus the counter at the start of the stretch never exceeds the cap. -/
theorem resubmissions_without_success_le_cap (fin : Bool) (c : Cfg) (s : St) (win : List Inp)
    (h0 : s.resub ≤ cap) (hns : ∀ i ∈ win, i.reason ≠ .success) :
    s.resub + resubCount (exec fin c s win) ≤ cap := by
  induction win generalizing s with
  | nil => simpa [exec_nil, resubCount] using h0
  | cons i is ih =>
    have hk := step_ok fin c s i
    have hne : i.reason ≠ .success := hns i (List.mem_cons_self)
    have h1 := hk.resub_inv h0
    have := ih (step fin c s i).1 h1 (fun j hj => hns j (List.mem_cons_of_mem _ hj))
    rw [exec_cons]
    simp only [resubCount, List.filter_cons] at this ⊢
    split
    · rename_i h
      simp only [Ev.isResub, Bool.and_eq_true, decide_eq_true_eq] at h
      have := hk.resub_window h.2 h.1
      simp only [List.length_cons]; omega
    · have := hk.resub_keep hne; omega

/-- … from the start of a component's life, after any prefix: never more than five re-submissions until a task
succeeds, task creation events included. -/
theorem at_most_five_resubmissions_until_success (fin : Bool) (c : Cfg) (pre win : List Inp)
    (hns : ∀ i ∈ win, i.reason ≠ .success) :
    resubCount (exec fin c (final fin c St.init pre) win) ≤ 5 := by
  have h1 := resub_invariant fin c St.init pre (by simp [St.init])
  have := resubmissions_without_success_le_cap fin c _ win h1 hns
  have hc : cap = 5 := pin_resubmission_cap
  omega

/-! ## A refused restart is final -/

/-- `refused_then_final`: under `postMortemCheck`, any answer other than RestartInitiated gives the
component its final state (engine shut down). -/
theorem refused_then_final (c : Cfg) (s : St) (i : Inp) (h : (step true c s i).2 ≠ .initiated) :
    (step true c s i).1.shutdown = true :=
  (step_ok true c s i).refused_final rfl h

/-- … and after the final state no exit whatsoever starts the task again or changes the restart counter. -/
theorem nothing_after_final (fin : Bool) (c : Cfg) (s : St) (inps : List Inp) (h : s.shutdown = true) :
    ∀ e ∈ exec fin c s inps, e.code ≠ .initiated ∧ e.st.runs = s.runs ∧ e.st.restarts = s.restarts := by
  induction inps generalizing s with
  | nil => intro e he; simp [exec_nil] at he
  | cons i is ih =>
    intro e he
    have hk := (step_ok fin c s i).absorbing h
    rw [exec_cons] at he
    rcases List.mem_cons.mp he with rfl | he
    · exact ⟨hk.1, hk.2.1, hk.2.2.1⟩
    · have := ih _ hk.2.2.2 e he
      exact ⟨this.1, by rw [this.2.1, hk.2.1], by rw [this.2.2, hk.2.2.1]⟩

/-- Both together, as the property states it: once a restart is refused, the rest of the history contains
no further start of the task. -/
theorem refused_is_definitive (c : Cfg) (s : St) (i : Inp) (rest : List Inp)
    (h : (step true c s i).2 ≠ .initiated) :
    ∀ e ∈ exec true c (step true c s i).1 rest, e.code ≠ .initiated ∧ e.st.runs = (step true c s i).1.runs := by
  intro e he
  have := nothing_after_final true c _ rest (refused_then_final c s i h) e he
  exact ⟨this.1, this.2.1⟩

/-! ## What every restart-hook outcome means

The property quantifies over "every restart-hook outcome (possible, not required, not possible, failed, raising,
returning junk)".  `HookAns.refuses` are the outcomes that refuse: not required (`RestartContextRestartNotRequired`
or the old interface's `False`), not possible, failed (`RestartContextHookFailed`) and raising (an exception that
is not an IOError: "Will consider it RestartContextHookFailed"). -/

/-- `refusing_hook_never_restarts`: a plain engine (not the simulator's unconditional restart, not a
RepeatingEngine) whose hook module answers with a refusing outcome does not start the task again at an exit that
is not a failed submission — from every state, whatever the budget, the exit reason, the stability of the
system, `run()` failing or not: no `RestartInitiated`, no `run()`. -/
theorem refusing_hook_never_restarts (fin : Bool) (c : Cfg) (s : St) (i : Inp) (hrep : c.repeating = false)
    (hsim : c.simulator = false) (hm : c.hookModule = .scripted) (hsf : i.reason ≠ .submissionFailed)
    (hr : i.hook.refuses = true) :
    (step fin c s i).2 ≠ .initiated ∧ (step fin c s i).1.runs = s.runs := by
  have key := ctrlRestart_refusing c (arrive c s i) i hrep hsim hm hsf hr
  have e2 := (arrive_fields c s i).2.1
  unfold step stepWith stepGen
  simp only []
  split
  · exact ⟨key.1, by simp only []; rw [key.2, e2]⟩
  · exact ⟨key.1, by rw [key.2, e2]⟩

/-- … and under the real post-mortem handling the component then receives its final state: "once a restart is
refused the component receives its final state" for a hook that answers not required / not possible / failed or
raises. -/
theorem refusing_hook_is_final (c : Cfg) (s : St) (i : Inp) (hrep : c.repeating = false)
    (hsim : c.simulator = false) (hm : c.hookModule = .scripted) (hsf : i.reason ≠ .submissionFailed)
    (hr : i.hook.refuses = true) :
    (step true c s i).1.shutdown = true :=
  refused_then_final c s i (refusing_hook_never_restarts true c s i hrep hsim hm hsf hr).1

/-- … over histories: if every exit of a history is answered by a refusing hook (and none is a failed
submission), nothing is ever started again — also with an unlimited budget (hook file named, no maximum). -/
theorem refusing_hooks_never_restart (fin : Bool) (c : Cfg) (s : St) (inps : List Inp) (hrep : c.repeating = false)
    (hsim : c.simulator = false) (hm : c.hookModule = .scripted)
    (hall : ∀ i ∈ inps, i.reason ≠ .submissionFailed ∧ i.hook.refuses = true) :
    (∀ e ∈ exec fin c s inps, e.code ≠ .initiated) ∧ (final fin c s inps).runs = s.runs := by
  induction inps generalizing s with
  | nil => simp [exec_nil, final_nil]
  | cons i is ih =>
    have h1 := refusing_hook_never_restarts fin c s i hrep hsim hm (hall i (List.mem_cons_self)).1
      (hall i (List.mem_cons_self)).2
    have h2 := ih (step fin c s i).1 (fun j hj => hall j (List.mem_cons_of_mem _ hj))
    rw [exec_cons, final_cons]
    refine ⟨?_, by rw [h2.2, h1.2]⟩
    intro e he
    rcases List.mem_cons.mp he with rfl | he
    · exact h1.1
    · exact h2.1 e he

/-- the hook is asked (`stepAsksHook`, compared with the real hook module's call count on every run) only at
exits whose reason is listed, that are no failed submissions, and while the budget is not used up -/
theorem hook_asked_only_when_listed (c : Cfg) (s : St) (i : Inp) (h : stepAsksHook c s i = true) :
    i.reason ∈ c.hookOn ∧ i.reason ≠ .submissionFailed ∧ c.repeating = false := by
  simp only [stepAsksHook, ctrlAsksHook, Bool.and_eq_true, Bool.not_eq_true'] at h
  have := engineAsksHook_spec c _ i h.2
  exact ⟨this.1, this.2.1, h.1.2⟩

/-! ## The loader: the policy the runtime sees is the policy written -/

/-- the default list of restartable exit reasons of `flowir.py` is exactly `[ResourceExhausted]` -/
theorem pin_default_hook_on : defaultHookOn = [.resourceExhausted] := by decide

/-- `explicit_list_preserved`: a `restartHookOn` that is written — the empty list included — reaches the runtime
unchanged … -/
theorem explicit_list_preserved (w : Written) (l : List Reason) (h : w.hookOn = some l) : (load w).hookOn = l := by
  simp [load, h]

/-- … and only a missing list gets the default. -/
theorem only_missing_list_gets_default (w : Written) :
    (w.hookOn = none ∧ (load w).hookOn = defaultHookOn) ∨ w.hookOn = some (load w).hookOn := by
  cases h : w.hookOn <;> simp [load, h]

/-- `maxRestarts` (0 included) and `restartHookFile` ('' included) are seen as written -/
theorem load_keeps_max_and_hook_file (w : Written) :
    (load w).maxRestarts = w.maxRestarts ∧ (load w).hookFile = w.hookFile := ⟨rfl, rfl⟩

/-- the budget of the loaded policy is the written one: the written maximum if there is one, else unlimited exactly
when a non-empty hook file name is written, else the default of three -/
theorem loaded_budget (w : Written) (sim rep : Bool) (m : HookModule) :
    effMax ((load w).cfg sim rep m) =
      match w.maxRestarts with
      | some k => k
      | none => if (match w.hookFile with | some f => f != "" | none => false) then C12.unlimited else 3 := by
  cases hm : w.maxRestarts with
  | some k => simp [effMax, load, Seen.cfg, hm]
  | none =>
    simp only [effMax, load, Seen.cfg, hm]
    split <;> simp_all [C12.defaultMaxRestarts, C12.defaultMaxRestartsWithHookFile, C12.unlimited]

/-- `only_written_reasons`: through the loader, the task is started again only for an exit reason the component
WROTE in `restartHookOn` (for the default `[ResourceExhausted]` when it wrote no list) or a failed submission. -/
theorem only_written_reasons (fin : Bool) (w : Written) (sim rep : Bool) (m : HookModule) (s : St) (inps : List Inp) :
    ∀ e ∈ exec fin ((load w).cfg sim rep m) s inps, e.code = .initiated →
      e.reason = .submissionFailed ∨ e.reason ∈ w.hookOn.getD defaultHookOn := by
  intro e he hi
  have h := only_listed_reasons fin _ s inps e he hi
  cases hw : w.hookOn <;> simpa [load, Seen.cfg, hw] using h

/-- `empty_list_never_restarts`: a component that writes `restartHookOn: []` is never restarted (re-submissions after
failed submissions apart), whatever its hook, its budget, the stability of the system. -/
theorem empty_list_never_restarts (fin : Bool) (w : Written) (sim rep : Bool) (m : HookModule) (s : St)
    (inps : List Inp) (h : w.hookOn = some []) :
    ∀ e ∈ exec fin ((load w).cfg sim rep m) s inps, e.isRestart = false := by
  intro e he
  have h1 := only_written_reasons fin w sim rep m s inps e he
  simp only [h, Option.getD_some, List.not_mem_nil, or_false] at h1
  cases hc : decide (e.code = .initiated) with
  | false => simp [Ev.isRestart, hc]
  | true =>
    have := h1 (by simpa using hc)
    simp [Ev.isRestart, this]

/-! ## Several components of one experiment: every component is judged by its own policy and its own hook file -/

private theorem mexec_cons (fin : Bool) (files : String → HookAns) (cf : Nat → MCfg) (ss : Nat → St) (m : MInp)
    (ms : List MInp) :
    mexec fin files cf ss (m :: ms) =
      (m.comp, (mstep fin files cf ss m).2) :: mexec fin files cf (mstep fin files cf ss m).1 ms := rfl

/-- `component_decisions_independent`: in any interleaved history of exits of any number of components, the events
of component `k` (codes, counters, final state) are exactly those of `k` running alone on its own exits answered by
its own hook file — the restarts of the other components, their hook files and their order do not matter. -/
theorem component_decisions_independent (fin : Bool) (files : String → HookAns) (cf : Nat → MCfg) (k : Nat)
    (ss : Nat → St) (ms : List MInp) :
    eventsOf k (mexec fin files cf ss ms) = exec fin (cf k).cfg (ss k) (ownInps files cf k ms) := by
  induction ms generalizing ss with
  | nil => simp [mexec, eventsOf, ownInps, exec_nil]
  | cons m ms ih =>
    rw [mexec_cons]
    by_cases hk : m.comp = k
    · subst hk
      have := ih (mstep fin files cf ss m).1
      simp only [eventsOf, ownInps, List.filter_cons, beq_self_eq_true, if_true, List.map_cons] at this ⊢
      rw [exec_cons, this]
      simp [mstep, ownInp]
    · have := ih (mstep fin files cf ss m).1
      have hb : (m.comp == k) = false := by simpa using hk
      have hk' : ¬ k = m.comp := fun h => hk h.symm
      simp only [eventsOf, ownInps, List.filter_cons, hb] at this ⊢
      simpa [mstep, hk'] using this

/-- … in particular they depend on the contents of no hook file but the component's own. -/
theorem depends_only_on_own_hook_file (fin : Bool) (files files' : String → HookAns) (cf : Nat → MCfg) (k : Nat)
    (ss : Nat → St) (ms : List MInp) (h : files (cf k).hookFile = files' (cf k).hookFile) :
    eventsOf k (mexec fin files cf ss ms) = eventsOf k (mexec fin files' cf ss ms) := by
  rw [component_decisions_independent, component_decisions_independent]
  simp [ownInps, ownInp, h]

/-- `own_refusing_file_never_restarts`: a component (plain engine, hook module imported fine) whose OWN hook file
refuses is never started again at an exit other than a failed submission, whatever the other components' hook files
answer and whenever they restarted. -/
theorem own_refusing_file_never_restarts (fin : Bool) (files : String → HookAns) (cf : Nat → MCfg) (k : Nat)
    (ss : Nat → St) (ms : List MInp) (hrep : (cf k).cfg.repeating = false) (hsim : (cf k).cfg.simulator = false)
    (hm : (cf k).cfg.hookModule = .scripted) (hr : (files (cf k).hookFile).refuses = true)
    (hsf : ∀ m ∈ ms, m.comp = k → m.inp.reason ≠ .submissionFailed) :
    ∀ e ∈ eventsOf k (mexec fin files cf ss ms), e.code ≠ .initiated := by
  rw [component_decisions_independent]
  refine (refusing_hooks_never_restart fin (cf k).cfg (ss k) _ hrep hsim hm ?_).1
  intro i hi
  simp only [ownInps, List.mem_map, List.mem_filter, beq_iff_eq] at hi
  obtain ⟨m, ⟨hm1, hm2⟩, rfl⟩ := hi
  exact ⟨hsf m hm1 hm2, hr⟩

/-! ## Non-vacuity: the hypotheses are met by concrete, non-trivial inputs -/

private def hookYes : Inp := ⟨.knownIssue, .ctx .possible, false, false, true, .task⟩
private def hookNo : Inp := ⟨.knownIssue, .ctx .notPossible, false, false, true, .task⟩
private def subFailed : Inp := ⟨.submissionFailed, .junk, false, false, true, .task⟩
private def cfgDefault : Cfg := ⟨none, false, [.knownIssue], false, false, .scripted⟩
private def cfgListsSF : Cfg := ⟨some 2, false, [.submissionFailed, .knownIssue], false, false, .scripted⟩

/-- default maximum: three restarts are initiated, the fourth is refused -/
example : (exec false cfgDefault St.init (List.replicate 5 hookYes)).map (·.code) =
    [.initiated, .initiated, .initiated, .maxAttemptsExceeded, .maxAttemptsExceeded] := by decide
/-- refused restarts use up the budget too (counter incremented before the hook is asked) -/
example : (exec false cfgDefault St.init [hookNo, hookNo, hookYes, hookYes]).map (fun e => (e.code, e.st.restarts)) =
    [(.couldNotInitiate, 1), (.couldNotInitiate, 2), (.initiated, 3), (.maxAttemptsExceeded, 3)] := by decide
/-- SubmissionFailed listed in restartHookOn: five re-submissions, then refused; the window hypothesis of
`resubmission_cap` holds for the first five -/
example : (exec false cfgListsSF St.init (List.replicate 7 subFailed)).map (·.code) =
    [.initiated, .initiated, .initiated, .initiated, .initiated, .maxAttemptsExceeded, .maxAttemptsExceeded] := by decide
example : ∀ e ∈ exec false cfgListsSF (final false cfgListsSF St.init [hookYes]) (List.replicate 5 subFailed),
    e.isResub = true := by decide
/-- tasks that are created fine and then report SubmissionFailed: five re-submissions, the sixth exit is refused and
(real controller) the component gets its final state; a launch that raises in between does not change that -/
example : (exec true cfgDefault St.init (List.replicate 7 subFailed)).map (fun e => (e.code, e.st.resub, e.st.shutdown)) =
    [(.initiated, 1, false), (.initiated, 2, false), (.initiated, 3, false), (.initiated, 4, false),
     (.initiated, 5, false), (.maxAttemptsExceeded, 5, true), (.maxAttemptsExceeded, 5, true)] := by decide
example : resubCount (exec false cfgDefault St.init
    [subFailed, { subFailed with launch := .submitError }, hookYes, subFailed, subFailed, hookNo, subFailed, subFailed]) = 5 := by
  decide
/-- the real controller stops at the first refusal -/
example : (exec true cfgDefault St.init [hookYes, hookNo, hookYes]).map (fun e => (e.code, e.st.shutdown, e.st.runs)) =
    [(.initiated, false, 1), (.couldNotInitiate, true, 1), (.couldNotInitiate, true, 1)] := by decide
example : schemaValid cfgListsSF = true ∧ effMax cfgListsSF ≠ C12.unlimited := by decide
/-- a hook that raises / reports failure at an exit with a listed reason: asked, refused, final state; with a named
hook file and no maximum (unlimited budget) as well; the same exits answered "possible" restart every time -/
private def cfgNamedHook : Cfg := ⟨none, true, [.knownIssue], false, false, .scripted⟩
private def hookRaises : Inp := ⟨.knownIssue, .raises, false, false, true, .task⟩
private def hookFailed : Inp := ⟨.knownIssue, .ctx .hookFailed, false, false, true, .task⟩
example : stepAsksHook cfgNamedHook St.init hookRaises = true ∧ hookRaises.hook.refuses = true ∧
    hookFailed.hook.refuses = true ∧ effMax cfgNamedHook = C12.unlimited := by decide
example : (exec true cfgNamedHook St.init [hookYes, hookYes, hookYes, hookYes, hookRaises, hookYes]).map
    (fun e => (e.code, e.st.shutdown, e.st.runs)) =
    [(.initiated, false, 1), (.initiated, false, 2), (.initiated, false, 3), (.initiated, false, 4),
     (.couldNotInitiate, true, 4), (.couldNotInitiate, true, 4)] := by decide
example : (exec false cfgDefault St.init [hookFailed, hookRaises, hookNo]).map (·.code) =
    [.couldNotInitiate, .couldNotInitiate, .couldNotInitiate] := by decide
example : effMax ⟨none, true, [], false, false, .fallback⟩ = C12.unlimited := by decide


/-! ## kill() before a launch: what the engine reports, and that the task is not started again

`St4sd.RestartKill` (Model/RestartKill.lean): the `self.process` / `self._exitReason` ivars of a plain `Engine`
through launches, exits, `kill()` and the reset made by `Engine.restart`.  For every history of launches, exits
and kills, from every engine state without a stale Task object: a `kill()` that finds the engine alive and not
launched — in the launch delay of the first `run()`, in the launch delay of the `run()` of a restart, or before
`run()` — is reported as `Killed`, and the task is not started again. -/
section Kill
open St4sd.RestartKill

/-- no Task object of an earlier launch is left in `self.process` while a launch is awaited or before `run()` -/
def KInv (e : Eng) : Prop := (e.pending = true ∨ e.runCalled = false) → e.proc = none

theorem kinv_init : KInv Eng.init ∧ KInv (RestartKill.run Eng.init) := by
  constructor <;> intro _ <;> rfl

/-- launches, exits and kills keep the invariant -/
theorem kinv_arrive (e : Eng) (a : Arrival) (h : KInv e) : KInv (arriveEng e a) := by
  unfold KInv at *
  cases a with
  | exits l r =>
    cases l <;> simp [arriveEng, setExitReason]
    intro hr; simp [h (Or.inr hr)]
  | kill =>
    simp only [arriveEng]
    split
    · simp [setExitReason]; intro hr; exact h (Or.inr hr)
    · split
      · simpa [setExitReason] using h
      · exact h

/-- the reset of `Engine.restart` (`self.process = None`) establishes it -/
theorem kinv_after_decision (e : Eng) (s s' : St) (code : Code) (h : KInv e) :
    KInv (afterDecision false e s s' code) := by
  unfold afterDecision
  split
  · intro _; rfl
  · exact h

/-- `kill_before_launch_reports_killed`: a kill that finds the engine alive and not launched is reported as Killed -/
theorem kill_before_launch_reports_killed (e : Eng) (h : KInv e) (hk : e.killable = true) :
    (arriveEng e .kill).exitReason = some .killed := by
  unfold KInv at h
  unfold Eng.killable at hk
  simp only [arriveEng]
  by_cases hp : e.pending = true
  · simp [hp, setExitReason, h (Or.inl hp)]
  · simp [hp] at hk
    simp [hp, hk, setExitReason, h (Or.inr hk.1)]

/-- one step keeps the invariant -/
theorem kinv_kstep (fin : Bool) (c : Cfg) (s : St) (e : Eng) (k : KInp) (h : KInv e) :
    KInv (kstep false fin c (s, e) k).1.2 := by
  unfold kstep
  exact kinv_after_decision _ _ _ _ (kinv_arrive e k.arrival h)

/-- `killed_before_launch_never_started_again`: in every history of launches, exits and kills, at every `kill()` that
finds the engine alive and not launched the engine reports Killed, the restart is not initiated and `run()` is not
called (schema domain of `restartHookOn`; even when the system is reported unstable, whatever the hook says). -/
theorem killed_before_launch_never_started_again (fin : Bool) (c : Cfg) (hv : schemaValid c = true) (s : St)
    (e : Eng) (h : KInv e) (ks : List KInp) :
    ∀ ev ∈ kexec false fin c (s, e) ks, ev.arrival = .kill → ev.killable = true →
      ev.reported = .killed ∧ ev.code ≠ .initiated ∧ ev.st.runs = ev.runsBefore := by
  induction ks generalizing s e with
  | nil => intro ev hev; simp [kexec] at hev
  | cons k ks ih =>
    intro ev hev
    simp only [kexec] at hev
    rcases List.mem_cons.mp hev with rfl | hev
    · intro ha hk
      simp only [kstep] at ha hk ⊢
      have hrep : (arriveEng e k.arrival).exitReason = some .killed := by
        rw [ha]; exact kill_before_launch_reports_killed e h hk
      simp only [hrep, Option.getD_some]
      have := no_restart_after_kill fin c s
        { k.inp with reason := .killed, launch := match k.arrival with | .exits l _ => l | .kill => .none } hv (Or.inl rfl)
      exact ⟨trivial, this.1, this.2⟩
    · have hi := kinv_kstep fin c s e k h
      exact ih (kstep false fin c (s, e) k).1.1 (kstep false fin c (s, e) k).1.2 hi ev hev

/-- the same from the engine as it is created (with or without the first `run()`) -/
theorem killed_before_launch_never_started_again_from_start (fin : Bool) (c : Cfg) (hv : schemaValid c = true)
    (firstRun : Bool) (ks : List KInp) :
    ∀ ev ∈ kexec false fin c (St.init, if firstRun then RestartKill.run Eng.init else Eng.init) ks,
      ev.arrival = .kill → ev.killable = true →
      ev.reported = .killed ∧ ev.code ≠ .initiated ∧ ev.st.runs = ev.runsBefore := by
  apply killed_before_launch_never_started_again fin c hv
  cases firstRun
  · exact kinv_init.1
  · exact kinv_init.2

/-! non-vacuity: a restart is initiated, the kill arrives in its launch delay, is reported as Killed and refused;
in the history-continues mode a later listed exit restarts again -/
private def cfgExh : Cfg := ⟨none, false, [.resourceExhausted], false, false, .fallback⟩
private def kI (a : Arrival) : KInp := ⟨a, ⟨.success, .ctx .possible, true, false, true, .task⟩⟩
example : (kexec false false cfgExh (St.init, RestartKill.run Eng.init)
    [kI (.exits .task .resourceExhausted), kI .kill, kI (.exits .none .resourceExhausted)]).map
    (fun ev => (ev.killable, ev.reported, ev.code, ev.st.runs)) =
    [(true, .resourceExhausted, .initiated, 1), (true, .killed, .couldNotInitiate, 1),
     (false, .resourceExhausted, .initiated, 2)] := by decide
example : schemaValid cfgExh = true := by decide

end Kill

/-! non-vacuity of the loader and several-components theorems -/
private def wEmpty : Written := ⟨none, none, some []⟩
private def wMissing : Written := ⟨some 0, some "", none⟩
private def exhaustedI : Inp := ⟨.resourceExhausted, .ctx .possible, false, false, true, .task⟩
example : (load wEmpty).hookOn = [] ∧ (load wMissing).hookOn = [.resourceExhausted] ∧
    (load wMissing).maxRestarts = some 0 ∧ (load wMissing).hookFile = some "" := by decide
example : (exec true ((load wEmpty).cfg false false .scripted) St.init [exhaustedI]).map (·.code) = [.couldNotInitiate] ∧
    (exec true ((load ⟨none, none, none⟩).cfg false false .scripted) St.init [exhaustedI]).map (·.code) = [.initiated] := by
  decide
private def twoFiles : String → HookAns := fun f => if f = "allow.py" then .ctx .possible else .ctx .notPossible
private def twoComps : Nat → MCfg := fun k =>
  ⟨⟨none, true, [.resourceExhausted], false, false, .scripted⟩, if k = 0 then "allow.py" else "refuse.py"⟩
example : (mexec true twoFiles twoComps (fun _ => St.init) [⟨0, exhaustedI⟩, ⟨1, exhaustedI⟩, ⟨0, exhaustedI⟩]).map
    (fun e => (e.1, e.2.code, e.2.st.shutdown)) =
    [(0, .initiated, false), (1, .couldNotInitiate, true), (0, .initiated, false)] := by decide
example : (twoFiles (twoComps 1).hookFile).refuses = true ∧ (twoComps 1).cfg.hookModule = .scripted := by decide

end St4sd.C12
