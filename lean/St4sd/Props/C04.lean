import St4sd.Lemmas.C04Tree
import St4sd.Lemmas.C04Flatten
import St4sd.Lemmas.C04User
import St4sd.Lemmas.C04Conf
import St4sd.Model.TreeArray
/-!
# C04 — Resolved component configuration follows the documented layering order

Model: `Model/Tree.lean` (`override`), `Model/Interp.lean` (`interp`, `fillIn`), `Model/Convert.lean`
(`convert`), `Model/Resolve.lean` (`varsOf`, `layers`, `resolve`, `patchUser`; `Flags`, `varsOfF`, `layersF`,
`resolveF` for every combination of the keyword arguments of `get_component_configuration`).
-/
namespace St4sd.C04
open St4sd.Str St4sd.Tree

/-! ## 1. Options: the layers are applied in the documented total order -/

/-- `p` is a *leaf route* of `v`: every inner node on the route is a dictionary (or a value the code
treats as an empty dictionary / as absent), and the node at the end, if present, is not a dictionary. -/
def leafAt : List S → Val → Bool
  | [], v => !isDict v
  | k :: ks, .dict kvs => match get kvs k with
    | none => true
    | some v => leafAt ks v
  | _ :: _, v => falsy v

/-- priority combination of what a lower and a higher layer say about one leaf: the higher layer wins
unless it is silent or says `None`; `None` survives only if nothing below defines the leaf. -/
def pick (lo hi : Option Val) : Option Val :=
  match hi with
  | none => lo
  | some .null => (match lo with | some w => some w | none => some .null)
  | some v => some v

/-- the specification: scan the layers from the highest priority down -/
def specLookup : List (Option Val) → Option Val
  | [] => none
  | hi :: lower => pick (specLookup lower) hi

private theorem override_leaf (a b : Val) (ha : isDict a = false) (hb : isDict b = false) :
    override a b = (match b with | .null => a | _ => b) ∧ isDict (override a b) = false := by
  cases a <;> cases b <;> simp [isDict] at ha hb <;> simp [override, isDict]

theorem pick_none_left (x : Option Val) : pick none x = x := by
  cases x with
  | none => rfl
  | some w => cases w <;> rfl

theorem pick_none_right (x : Option Val) : pick x none = x := rfl

private theorem falsy_dict_lookup (kvs : Fields) (h : falsy (.dict kvs) = true) (k : S) : get kvs k = none := by
  cases kvs with
  | nil => rfl
  | cons h t => simp [falsy] at h

/-- Lookup of a leaf route commutes with `override_object`. -/
theorem lookup_override (p : List S) : ∀ (a b : Val), leafAt p a = true → leafAt p b = true →
    lookupPath p (override a b) = pick (lookupPath p a) (lookupPath p b) ∧ leafAt p (override a b) = true := by
  induction p with
  | nil =>
    intro a b ha hb
    simp only [leafAt, Bool.not_eq_true'] at ha hb
    obtain ⟨h1, h2⟩ := override_leaf a b ha hb
    refine ⟨?_, by simp [leafAt, h2]⟩
    simp only [lookupPath, pick, h1]
    cases b <;> simp_all [isDict]
  | cons k ks ih =>
    intro a b ha hb
    cases a with
    | dict akvs =>
      cases b with
      | dict bkvs =>
        simp only [override, lookupPath, leafAt, get_override_dict]
        simp only [leafAt] at ha hb
        cases hga : get akvs k with
        | none =>
          cases hgb : get bkvs k with
          | none => simp [pick]
          | some y =>
            simp only [hgb] at hb
            refine ⟨?_, hb⟩
            simp only [pick]
            cases hl : lookupPath ks y with
            | none => rfl
            | some w => cases w <;> rfl
        | some x =>
          simp only [hga] at ha
          cases hgb : get bkvs k with
          | none => simp [pick, ha]
          | some y =>
            simp only [hgb] at hb
            exact ih x y ha hb
      | null => simp_all [override, lookupPath, leafAt, pick_none_right]
      | bool v => simp_all [override, lookupPath, leafAt, pick_none_right]
      | int v => simp_all [override, lookupPath, leafAt, pick_none_right]
      | flt v => simp_all [override, lookupPath, leafAt, pick_none_right]
      | str v => simp_all [override, lookupPath, leafAt, pick_none_right]
      | list v => simp_all [override, lookupPath, leafAt, pick_none_right]
    | null =>
      cases b <;> simp_all [override, lookupPath, leafAt, pick_none_left, pick_none_right]
    | bool v =>
      cases b <;> simp_all [override, lookupPath, leafAt, pick_none_left, pick_none_right]
    | int v =>
      cases b <;> simp_all [override, lookupPath, leafAt, pick_none_left, pick_none_right]
    | flt v =>
      cases b <;> simp_all [override, lookupPath, leafAt, pick_none_left, pick_none_right]
    | str v =>
      cases b <;> simp_all [override, lookupPath, leafAt, pick_none_left, pick_none_right]
    | list v =>
      cases b <;> simp_all [override, lookupPath, leafAt, pick_none_left, pick_none_right]

private theorem foldl_lookup (p : List S) : ∀ (ls : List Val) (acc : Val), leafAt p acc = true →
    (∀ l ∈ ls, leafAt p l = true) →
    lookupPath p (ls.foldl override acc) = specLookup ((ls.reverse.map (lookupPath p)) ++ [lookupPath p acc])
    ∧ leafAt p (ls.foldl override acc) = true := by
  intro ls
  induction ls with
  | nil => intro acc ha _; simp [specLookup, pick_none_left, ha]
  | cons l r ih =>
    intro acc ha hl
    have h1 := lookup_override p acc l ha (hl l (by simp))
    have h2 := ih (override acc l) h1.2 (fun x hx => hl x (by simp [hx]))
    refine ⟨?_, h2.2⟩
    rw [List.foldl_cons, h2.1, h1.1]
    simp only [List.reverse_cons, List.map_append, List.map_cons, List.map_nil, List.append_assoc,
      List.cons_append, List.nil_append]
    generalize (r.reverse.map (lookupPath p)) = hi
    induction hi with
    | nil => simp [specLookup, pick_none_left]
    | cons h t iht => simp only [List.cons_append, specLookup, iht]

private theorem layerAll_ok : ∀ (ls : List Val) (acc v : Val), layerAll acc ls = .ok v → v = ls.foldl override acc := by
  intro ls
  induction ls with
  | nil => intro acc v h; simp [layerAll] at h; exact h.symm
  | cons l r ih =>
    intro acc v h
    simp only [layerAll] at h
    split at h
    · cases h
    · exact ih _ _ h

/-- **resolve_eq_spec** (options).  For every description, platform, component and every leaf route `p`
of the layers: the value found at `p` in the layered configuration is the one of the highest-priority layer
that defines it as something other than `None`, in the order
built-in defaults < default global < default stage < platform global < platform stage < component <
component override for the platform; `None` only if some layer says `None` and none says more; absent if
no layer mentions it. -/
theorem resolve_eq_spec (d : Desc) (P : S) (c : Comp) (p : List S) (v : Val)
    (hleaf : ∀ l ∈ layers d P c, leafAt p l = true)
    (hok : layerAll (.dict []) (layers d P c) = .ok v) :
    lookupPath p v = specLookup ((layers d P c).reverse.map (lookupPath p)) := by
  have hv := layerAll_ok _ _ _ hok
  subst hv
  cases p with
  | nil =>
    exfalso
    have := hleaf (.dict c.body) (by simp [layers])
    simp [leafAt, isDict] at this
  | cons k ks =>
    have hroot : leafAt (k :: ks) (.dict []) = true := by simp [leafAt, Tree.get]
    have h := (foldl_lookup (k :: ks) (layers d P c) (.dict []) hroot hleaf).1
    rw [h]
    have hn : lookupPath (k :: ks) (.dict []) = none := by simp [lookupPath, Tree.get]
    rw [hn]
    generalize ((layers d P c).reverse.map (lookupPath (k :: ks))) = hi
    induction hi with
    | nil => rfl
    | cons h t ih => simp only [List.cons_append, specLookup, ih]

/-- the explicit list of layers (lowest priority first) that `resolve_eq_spec` talks about -/
theorem layers_order (d : Desc) (P : S) (c : Comp) :
    ∃ tail, layers d P c =
      [St4sd.Gen.C04.defaultComponent, bpGlobal d defaultName, bpStage d defaultName c.stage,
       bpGlobal d P, bpStage d P c.stage, .dict c.body] ++ tail ∧
      (tail = [] ∨ ∃ o, ovrOf c P = some o ∧ tail = [o]) := by
  unfold layers
  cases h : ovrOf c P with
  | none => exact ⟨[], rfl, Or.inl rfl⟩
  | some o =>
    by_cases hf : falsy o = true
    · exact ⟨[], by simp [hf], Or.inl rfl⟩
    · exact ⟨[o], by simp [hf], Or.inr ⟨o, rfl, rfl⟩⟩

/-- **resolve_eq_spec for every variant** (`inject_missing_fields` on or off): without the built-in
defaults the same order holds on the remaining layers
default global < default stage < platform global < platform stage < component < component override. -/
theorem resolveF_eq_spec (d : Desc) (P : S) (c : Comp) (inject : Bool) (p : List S) (v : Val)
    (hleaf : ∀ l ∈ layersF d P c inject, leafAt p l = true)
    (hok : layerAll (.dict []) (layersF d P c inject) = .ok v) :
    lookupPath p v = specLookup ((layersF d P c inject).reverse.map (lookupPath p)) := by
  have hv := layerAll_ok _ _ _ hok
  subst hv
  cases p with
  | nil =>
    exfalso
    have hm : Val.dict c.body ∈ layersF d P c inject := by
      cases inject <;> simp [layersF, layers]
    have := hleaf (.dict c.body) hm
    simp [leafAt, isDict] at this
  | cons k ks =>
    have hroot : leafAt (k :: ks) (.dict []) = true := by simp [leafAt, Tree.get]
    have h := (foldl_lookup (k :: ks) (layersF d P c inject) (.dict []) hroot hleaf).1
    rw [h]
    have hn : lookupPath (k :: ks) (.dict []) = none := by simp [lookupPath, Tree.get]
    rw [hn]
    generalize ((layersF d P c inject).reverse.map (lookupPath (k :: ks))) = hi
    induction hi with
    | nil => rfl
    | cons h t ih => simp only [List.cons_append, specLookup, ih]

/-- the explicit list of layers without the built-in defaults -/
theorem layersF_order (d : Desc) (P : S) (c : Comp) :
    layersF d P c true = layers d P c ∧
    ∃ tail, layersF d P c false =
      [bpGlobal d defaultName, bpStage d defaultName c.stage, bpGlobal d P, bpStage d P c.stage, .dict c.body] ++ tail ∧
      (tail = [] ∨ ∃ o, ovrOf c P = some o ∧ tail = [o]) := by
  refine ⟨rfl, ?_⟩
  obtain ⟨tail, h1, h2⟩ := layers_order d P c
  exact ⟨tail, by simp [layersF, h1], h2⟩

/-- what a `raw=True` query returns: the layered options (never interpolated, never converted) with the
selected variables inserted -/
theorem raw_result (d : Desc) (P : S) (c : Comp) (f : Flags) (fuel : Nat) (v : Val) (hraw : f.raw = true)
    (h : resolveCompF d P c f fuel = .ok v) :
    ∃ kvs, layerAll (.dict []) (layersF d P c f.inject) = .ok (.dict kvs) ∧
      v = .dict (set kvs "variables".toList (.dict (varsOfF d P c f.incl))) := by
  unfold resolveCompF at h
  rw [hraw] at h
  simp only [if_true] at h
  split at h
  · cases h
  · cases hl : layerAll (.dict []) (layersF d P c f.inject) with
    | error e => rw [hl] at h; cases h
    | ok ret =>
      rw [hl] at h
      simp only at h
      split at h
      · cases h
      · cases ret with
        | dict kvs => simp only [Except.ok.injEq] at h; exact ⟨kvs, rfl, h.symm⟩
        | _ => cases h

/-! ## 2. Variables -/

/-- first layer (highest priority first) that defines the variable; `dict.update`: `None` counts -/
def firstSome : List (Option Val) → Option Val
  | [] => none
  | some v :: _ => some v
  | none :: r => firstSome r

/-- **variables_eq_spec**: a variable of a component on platform `P ≠ default` comes from the first of
component override for `P`, component, platform stage, platform global, default stage, default global
that defines it. -/
theorem variables_eq_spec (d : Desc) (P : S) (c : Comp) (x : S) (hP : P ≠ defaultName) :
    get (varsOf d P c) x =
      firstSome [get (ovrVars c P) x, get (compVars c) x, get (stageVars d P c.stage) x, get (globalVars d P) x,
                 get (stageVars d defaultName c.stage) x, get (globalVars d defaultName) x] := by
  simp only [varsOf, hP, if_false, get_update]
  cases get (ovrVars c P) x <;> cases get (compVars c) x <;> cases get (stageVars d P c.stage) x <;>
    cases get (globalVars d P) x <;> cases get (stageVars d defaultName c.stage) x <;>
    cases get (globalVars d defaultName) x <;> rfl

/-- … and on the default platform from component override, component, default stage, default global -/
theorem variables_eq_spec_default (d : Desc) (c : Comp) (x : S) :
    get (varsOf d defaultName c) x =
      firstSome [get (ovrVars c defaultName) x, get (compVars c) x,
                 get (stageVars d defaultName c.stage) x, get (globalVars d defaultName) x] := by
  simp only [varsOf, if_true, get_update]
  cases get (ovrVars c defaultName) x <;> cases get (compVars c) x <;>
    cases get (stageVars d defaultName c.stage) x <;> cases get (globalVars d defaultName) x <;> rfl

/-- **variables without the default scopes** (`include_default=False`, the variant used when an instance
description is written): only the component's override for the platform and the component itself define
variables, in this order; global / stage variables of any platform are not visible. -/
theorem variables_eq_spec_own (d : Desc) (P : S) (c : Comp) (x : S) :
    get (varsOfF d P c false) x = firstSome [get (ovrVars c P) x, get (compVars c) x] := by
  have hv : varsOfF d P c false = update (compVars c) (ovrVars c P) := rfl
  rw [hv, get_update]
  cases get (ovrVars c P) x <;> cases get (compVars c) x <;> rfl

/-- with `include_default=True` the variables are the ones of `variables_eq_spec` -/
theorem varsOfF_incl (d : Desc) (P : S) (c : Comp) : varsOfF d P c true = varsOf d P c := rfl

/-! ### user-supplied variables: one layer between the platform's settings and the component -/

theorem firstSome_append (a b : List (Option Val)) :
    firstSome (a ++ b) = match firstSome a with | some v => some v | none => firstSome b := by
  induction a with
  | nil => simp [firstSome]
  | cons h t ih =>
    cases h with
    | none => simpa [firstSome] using ih
    | some v => simp [firstSome]

/-- **user_variables_eq_spec**: after `_patch_in_variable_files` a variable of a component (stage below the
number of stages, platform `P ≠ default` of the description) comes from the first of: component override for
`P`, component, the USER's variables for the stage, the user's global variables, platform stage, platform
global, default stage, default global that defines it - user-supplied variables outrank every global and
stage setting of both platforms and are outranked by the component's own definition and its override. -/
theorem user_variables_eq_spec (d : Desc) (uv : UserVars) (n : Nat) (P : S) (c : Comp) (x : S)
    (hP : P ≠ defaultName) (hmem : P ∈ d.platforms) (hdef : defaultName ∈ d.platforms) (hi : c.stage < n) :
    get (varsOf (patchUser d uv n) P c) x =
      firstSome [get (ovrVars c P) x, get (compVars c) x, get (stageOf uv c.stage) x, get uv.global x,
                 get (stageVars d P c.stage) x, get (globalVars d P) x,
                 get (stageVars d defaultName c.stage) x, get (globalVars d defaultName) x] := by
  rw [variables_eq_spec _ P c x hP, stageVars_patchUser d uv n P hmem c.stage hi, globalVars_patchUser d uv n P hmem,
    stageVars_patchUser d uv n defaultName hdef c.stage hi, globalVars_patchUser d uv n defaultName hdef]
  simp only [get_update, userFor, stageOf]
  cases get (ovrVars c P) x <;> cases get (compVars c) x <;> cases get ((lookupN uv.stages c.stage).getD []) x <;>
    cases get uv.global x <;> cases get (stageVars d P c.stage) x <;> cases get (globalVars d P) x <;>
    cases get (stageVars d defaultName c.stage) x <;> cases get (globalVars d defaultName) x <;> rfl

/-- … and on the default platform -/
theorem user_variables_eq_spec_default (d : Desc) (uv : UserVars) (n : Nat) (c : Comp) (x : S)
    (hdef : defaultName ∈ d.platforms) (hi : c.stage < n) :
    get (varsOf (patchUser d uv n) defaultName c) x =
      firstSome [get (ovrVars c defaultName) x, get (compVars c) x, get (stageOf uv c.stage) x, get uv.global x,
                 get (stageVars d defaultName c.stage) x, get (globalVars d defaultName) x] := by
  rw [variables_eq_spec_default, stageVars_patchUser d uv n defaultName hdef c.stage hi,
    globalVars_patchUser d uv n defaultName hdef]
  simp only [get_update, userFor, stageOf]
  cases get (ovrVars c defaultName) x <;> cases get (compVars c) x <;>
    cases get ((lookupN uv.stages c.stage).getD []) x <;> cases get uv.global x <;>
    cases get (stageVars d defaultName c.stage) x <;> cases get (globalVars d defaultName) x <;> rfl

private theorem user_files_fold (i : Nat) (x : S) : ∀ (fs : List UserVars) (acc : UserVars), PlainUser acc →
    (∀ f ∈ fs, PlainUser f) →
    get (stageOf (fs.foldl mergeUser acc) i) x =
      firstSome (fs.reverse.map (fun f => get (stageOf f i) x) ++ [get (stageOf acc i) x]) ∧
    get (fs.foldl mergeUser acc).global x =
      firstSome (fs.reverse.map (fun f => get f.global x) ++ [get acc.global x]) := by
  intro fs
  induction fs with
  | nil =>
    intro acc _ _
    simp only [List.foldl_nil, List.reverse_nil, List.map_nil, List.nil_append]
    constructor
    · cases get (stageOf acc i) x <;> rfl
    · cases get acc.global x <;> rfl
  | cons f r ih =>
    intro acc hacc hfs
    have hf : PlainUser f := hfs f (by simp)
    have hr := ih (mergeUser acc f) (plain_mergeUser acc f hacc hf) (fun g hg => hfs g (by simp [hg]))
    simp only [List.foldl_cons, List.reverse_cons, List.map_append, List.map_cons, List.map_nil, List.append_assoc]
    constructor
    · rw [hr.1, firstSome_append, firstSome_append, get_stageOf_mergeUser acc f hacc hf]
      cases firstSome (r.reverse.map (fun f => get (stageOf f i) x)) <;> cases get (stageOf f i) x <;>
        cases get (stageOf acc i) x <;> rfl
    · rw [hr.2, firstSome_append, firstSome_append, get_global_mergeUser acc f hacc hf]
      cases firstSome (r.reverse.map (fun f => get f.global x)) <;> cases get f.global x <;>
        cases get acc.global x <;> rfl

/-- **user_files_eq_spec**: `layer_many_variable_files` layers any number of variable files scope by scope and
name by name: in the `global` scope and in every `stages[i]` scope a name has the value of the LAST file that
defines it in that scope - a later file only shadows the names it defines itself; a name that only an earlier
file defines (in a scope for which the later files have a section too) is kept. -/
theorem user_files_eq_spec (fs : List UserVars) (h : ∀ f ∈ fs, PlainUser f) (i : Nat) (x : S) :
    get (stageOf (layerUserFiles fs) i) x = firstSome (fs.reverse.map (fun f => get (stageOf f i) x)) ∧
    get (layerUserFiles fs).global x = firstSome (fs.reverse.map (fun f => get f.global x)) := by
  have hf := user_files_fold i x fs ⟨[], []⟩ plainUser_empty h
  unfold layerUserFiles
  constructor
  · rw [hf.1, firstSome_append]
    cases firstSome (fs.reverse.map (fun f => get (stageOf f i) x)) <;> rfl
  · rw [hf.2, firstSome_append]
    cases firstSome (fs.reverse.map (fun f => get f.global x)) <;> rfl

/-- **user_files_layering**: what the user-supplied layer (of `user_variables_eq_spec`) says about a name in
stage `i` when several files were given: the last file that defines it for the stage, otherwise the last file
that defines it globally. -/
theorem user_files_layering (fs : List UserVars) (h : ∀ f ∈ fs, PlainUser f) (i : Nat) (x : S) :
    get (userFor (layerUserFiles fs) i) x =
      firstSome (fs.reverse.map (fun f => get (stageOf f i) x) ++ fs.reverse.map (fun f => get f.global x)) := by
  have hs := user_files_eq_spec fs h i x
  rw [firstSome_append, ← hs.1, ← hs.2]
  simp only [userFor, get_update, stageOf]
  cases Tree.get ((lookupN (layerUserFiles fs).stages i).getD []) x <;> rfl

/-- **platform isolation**, for every combination of the keyword arguments of
`get_component_configuration`: the resolution for `P` reads the description only through the platform
list, the blueprints and variables of `default` and of `P`, and the component itself - whatever other
platforms define cannot influence it. -/
theorem platform_isolation_flags (d d' : Desc) (P : S) (c : Comp) (f : Flags) (fuel : Nat)
    (hpl : d'.platforms.contains P = d.platforms.contains P)
    (h1 : bpGlobal d' defaultName = bpGlobal d defaultName)
    (h2 : bpStage d' defaultName c.stage = bpStage d defaultName c.stage)
    (h3 : bpGlobal d' P = bpGlobal d P) (h4 : bpStage d' P c.stage = bpStage d P c.stage)
    (h5 : globalVars d' defaultName = globalVars d defaultName)
    (h6 : stageVars d' defaultName c.stage = stageVars d defaultName c.stage)
    (h7 : globalVars d' P = globalVars d P) (h8 : stageVars d' P c.stage = stageVars d P c.stage) :
    resolveCompF d' P c f fuel = resolveCompF d P c f fuel := by
  unfold resolveCompF layersF varsOfF layers varsOf
  rw [hpl, h1, h2, h3, h4, h5, h6, h7, h8]

/-- **platform isolation** for the observed call -/
theorem platform_isolation (d d' : Desc) (P : S) (c : Comp) (prim : Bool) (fuel : Nat)
    (hpl : d'.platforms.contains P = d.platforms.contains P)
    (h1 : bpGlobal d' defaultName = bpGlobal d defaultName)
    (h2 : bpStage d' defaultName c.stage = bpStage d defaultName c.stage)
    (h3 : bpGlobal d' P = bpGlobal d P) (h4 : bpStage d' P c.stage = bpStage d P c.stage)
    (h5 : globalVars d' defaultName = globalVars d defaultName)
    (h6 : stageVars d' defaultName c.stage = stageVars d defaultName c.stage)
    (h7 : globalVars d' P = globalVars d P) (h8 : stageVars d' P c.stage = stageVars d P c.stage) :
    resolveComp d' P c prim fuel = resolveComp d P c prim fuel :=
  platform_isolation_flags d d' P c (Flags.std prim) fuel hpl h1 h2 h3 h4 h5 h6 h7 h8

/-- **sibling isolation**: the resolution of a component, for every combination of the keyword
arguments, is a function of the description's platforms, blueprints and variables and of the component's
OWN body: whatever the other components of the stage define (and whichever of them were resolved or
flattened before) cannot influence it. -/
theorem sibling_isolation (d d' : Desc) (P : S) (c : Comp) (f : Flags) (fuel : Nat)
    (h1 : d'.platforms = d.platforms) (h2 : d'.blueprint = d.blueprint) (h3 : d'.variables = d.variables) :
    resolveCompF d' P c f fuel = resolveCompF d P c f fuel := by
  simp only [resolveCompF, layersF, varsOfF, varsOf, layers, bpGlobal, bpStage, globalVars, stageVars, platVars,
    h1, h2, h3]

/-! ## 3. Interpolation -/

/-- **fill_in_fixpoint**: a successfully interpolated string (non-primitive graph) contains no
reference at all any more: neither to a defined variable nor to an undefined one. -/
theorem interp_fixpoint (ctx : Fields) : ∀ (f : Nat) (s v : S),
    interp f ctx false [] s = .ok v → findRef v = none := by
  intro f
  induction f with
  | zero => intro s v h; simp [interp] at h
  | succ f ih =>
    intro s v h
    simp only [interp] at h
    split at h
    · rename_i hnone
      simp only [List.nil_append, finish] at h
      split at h
      · cases h
      · split at h
        · cases h
        · cases h; exact hnone
    · rename_i pre x post hsome
      split at h
      · cases h
      · split at h
        · simp at h
        · rename_i val hget
          split at h
          · exact ih _ _ h
          · cases h
        · exact ih _ _ h
        · exact ih _ _ h
        · exact ih _ _ h
        · cases h

/-- **unknown_variable_is_error**: if the first reference in a string names a variable that no layer
defines, the interpolation fails with `unknownVariable` (it is never left in place, never replaced). -/
theorem unknown_variable_is_error (ctx : Fields) (f : Nat) (s pre x post : S)
    (href : findRef s = some (pre, x, post)) (hdot : x.contains '.' = false) (hund : get ctx x = none) :
    interp (f + 1) ctx false [] s = .error (.unknownVariable x) := by
  have hd : ¬ '.' ∈ x := by simpa using hdot
  simp [interp, href, hd, hund]

/-- the same for primitive graphs: only `replica` is exempt -/
theorem unknown_variable_is_error_primitive (ctx : Fields) (f : Nat) (s pre x post : S)
    (href : findRef s = some (pre, x, post)) (hdot : x.contains '.' = false) (hund : get ctx x = none)
    (hrep : x ≠ replicaName) :
    interp (f + 1) ctx true [] s = .error (.unknownVariable x) := by
  have hd : ¬ '.' ∈ x := by simpa using hdot
  simp [interp, href, hd, hund, hrep]

/-- Together with `interp_fixpoint`: whenever the resolution of a string succeeds, no `%(name)s` is left in
the result - so in particular no reference to an undefined variable can have been "left in place". -/
theorem no_reference_survives (ctx : Fields) (f : Nat) (s v pre x post : S)
    (h : interp f ctx false [] s = .ok v) : findRef v ≠ some (pre, x, post) := by
  rw [interp_fixpoint ctx f s v h]; simp

/-! ## 4. Termination: cyclic definitions are the only way to exhaust the fuel that the harness sees -/

def cyc : Fields := [(['a'], .str ['%', '(', 'a', ')', 's'])]

/-- `a: %(a)s` - the Python recurses until `RecursionError`; the model runs out of fuel whatever the fuel. -/
theorem cyclic_never_resolves : ∀ f : Nat, interp f cyc false [] ['%', '(', 'a', ')', 's'] = .error .fuel
  | 0 => rfl
  | f + 1 => by
    have ih := cyclic_never_resolves f
    have href : findRef ['%', '(', 'a', ')', 's'] = some ([], ['a'], []) := by decide
    have hget : Tree.get cyc ['a'] = some (.str ['%', '(', 'a', ')', 's']) := rfl
    simp only [interp, href, hget, ih]
    rfl

/-- more fuel never changes a successful result (so "enough fuel" is well defined) -/
theorem interp_fuel_mono (ctx : Fields) (prim : Bool) : ∀ (f : Nat) (done s v : S),
    interp f ctx prim done s = .ok v → interp (f + 1) ctx prim done s = .ok v := by
  intro f
  induction f with
  | zero => intro done s v h; simp [interp] at h
  | succ f ih =>
    intro done s v h
    rw [interp] at h
    rw [interp]
    cases hf : findRef s with
    | none => rw [hf] at h; exact h
    | some t =>
      obtain ⟨pre, x, post⟩ := t
      rw [hf] at h
      simp only at h ⊢
      by_cases hdot : List.contains x '.' = true
      · rw [if_pos hdot] at h; cases h
      · rw [if_neg hdot] at h; rw [if_neg hdot]
        cases hg : Tree.get ctx x with
        | none =>
          rw [hg] at h
          simp only at h ⊢
          by_cases hp : (prim && x == replicaName) = true
          · rw [if_pos hp] at h; rw [if_pos hp]; exact ih _ _ _ h
          · rw [if_neg hp] at h; cases h
        | some val =>
          rw [hg] at h
          cases val with
          | str sv =>
            simp only at h ⊢
            cases hin : interp f ctx prim [] sv with
            | error e => rw [hin] at h; simp at h
            | ok v' =>
              rw [hin] at h
              simp only at h
              rw [ih _ _ _ hin]
              exact ih _ _ _ h
          | int n => exact ih _ _ _ h
          | bool b => exact ih _ _ _ h
          | flt r => exact ih _ _ _ h
          | null => simp at h
          | list xs => simp at h
          | dict kvs => simp at h

/-- **acyclic_variables_terminate (partial)**: stated as "once some fuel suffices, every larger fuel gives
the same answer"; that a fuel suffices for chains of depth 6 is shown on a concrete chain below, the
general statement for every acyclic reference graph is not proved (the splice-and-rescan loop can create
references that are not in the text of any variable, e.g. `%(%(x)s)s`). -/
theorem acyclic_variables_terminate_partial (ctx : Fields) (prim : Bool) (f k : Nat) (s v : S)
    (h : interp f ctx prim [] s = .ok v) : interp (f + k) ctx prim [] s = .ok v := by
  induction k with
  | zero => exact h
  | succ k ih => exact interp_fuel_mono ctx prim _ _ _ _ ih

/-! ## 5. Typed options -/

/-- the declared type of a converter, as a predicate on values (floats are `repr` texts) -/
def hasTy : Ty → Val → Bool
  | .str, .str _ => true
  | .int, .int _ => true
  | .optInt, .int _ => true
  | .bool, .bool _ => true
  | .float, .flt _ => true
  | .strToBool, .bool _ => true
  | .toBool, .bool _ => true
  | .memory, .int _ => true
  | .qos, .str _ => true
  | _, _ => false

/-- **typed_options (partial)**: whatever string / integer / boolean reaches a typed option, a successful
conversion leaves a value of the declared type.  Partial: (i) floats are modelled as decimal texts, so
"is a float" means "is tagged as one"; (ii) values that are not strings, integers or booleans (`None`,
lists, floats from the YAML) are passed through unconverted by the code, and by the model. -/
theorem typed_options_partial (t : Ty) (v w : Val) (hs : isScalar v = true)
    (h : convLeaf false t v = .ok w) : hasTy t w = true := by
  unfold convLeaf at h
  have hex : exempt false v = false := by cases v <;> simp [exempt]
  cases hc : convScalar t v with
  | error e =>
    rw [hc] at h
    cases e <;> simp [hex] at h
  | ok u =>
    rw [hc] at h
    cases h
    cases t <;> cases v <;> simp [isScalar] at hs <;> simp only [convScalar] at hc
    all_goals first
      | (cases hc; rfl)
      | (simp only [intOfStr] at hc; split at hc <;> first | (cases hc; rfl) | (split at hc <;> cases hc))
      | (simp only [floatOfInt] at hc; split at hc <;> first | (cases hc; rfl) | cases hc)
      | (simp only [memoryToBytes] at hc
         split at hc
         · cases hc; rfl
         · split at hc
           · split at hc <;> cases hc
           · split at hc
             · cases hc; rfl
             · split at hc
               · cases hc; rfl
               · cases hc)
      | (split at hc <;> first | (cases hc; rfl) | (split at hc <;> cases hc) | cases hc)
      | cases hc

/-! ## 6. Flattening: `FlowIRConcrete.instance()` — the description the runtime executes

`FlowIRExperimentConfiguration(primitive=False)`, `Experiment` and `flowir_instance.yaml` do not hold the
package description but `instance(platform)` of it (`Model/TreeFlatten.lean`): the selected platform folded
into `default`.  `flattenRaw` is the layering skeleton of that fold, `flatten` the fold with its
interpolation passes (compared with the real `instance()` on every run). -/

/-- **flatten_preserves_layering**.  For every description, platform, component of the description and
variable name: what the component sees in the flattened description (resolved there for the same platform)
is the value of the SAME layer as in the original description - the fold keeps the whole order
default global < default stage < platform global < platform stage < component < component override. -/
theorem flatten_preserves_layering (d : Desc) (P : S) (c : Comp) (hc : c ∈ d.comps) (x : S) :
    get (varsOf (flattenRaw d P) P (flatCompRaw P c)) x = get (varsOf d P c) x := by
  have hi := mem_stagesOf d.comps c hc
  have hscope := get_flatScope d P c.stage x
  by_cases hP : P = defaultName
  · subst hP
    simp only [if_true] at hscope
    simp only [varsOf, if_true, flatCompRaw_stage, flatCompRaw_compVars, flatCompRaw_ovrVars,
      flattenRaw_global_default, flattenRaw_stage_default d defaultName c.stage hi]
    rw [get_update, get_update, hscope, get_update, get_update]
    simp only [flatCompVars0, get_update]
    cases get (ovrVars c defaultName) x <;> cases get (compVars c) x <;> rfl
  · simp only [hP, if_false] at hscope
    simp only [varsOf, hP, if_false, flatCompRaw_stage, flatCompRaw_compVars, flatCompRaw_ovrVars,
      flattenRaw_global_default, flattenRaw_stage_default d P c.stage hi,
      flattenRaw_global_other d P hP, flattenRaw_stage_other d P c.stage hP]
    rw [get_update, get_update, get_update, get_update, hscope, get_update, get_update]
    simp only [flatCompVars0, get_update, Tree.get]
    cases get (ovrVars c P) x <;> cases get (compVars c) x <;> rfl

/-- … spelled out (with `variables_eq_spec`): on a platform other than `default` the flattened description
offers the first of component override, component, platform stage, platform global, default stage, default
global that defines the name -/
theorem flatten_eq_spec (d : Desc) (P : S) (c : Comp) (hc : c ∈ d.comps) (x : S) (hP : P ≠ defaultName) :
    get (varsOf (flattenRaw d P) P (flatCompRaw P c)) x =
      firstSome [get (ovrVars c P) x, get (compVars c) x, get (stageVars d P c.stage) x, get (globalVars d P) x,
                 get (stageVars d defaultName c.stage) x, get (globalVars d defaultName) x] := by
  rw [flatten_preserves_layering d P c hc x, variables_eq_spec d P c x hP]

/-- **default stage outranks default global after the fold, on every platform**: a variable that a default
STAGE section defines and that neither the selected platform's sections nor the component re-define keeps
its stage value in the flattened description - whether or not the default global section defines it too. -/
theorem flatten_default_stage_outranks_default_global (d : Desc) (P : S) (c : Comp) (hc : c ∈ d.comps) (x : S)
    (w : Val) (hP : P ≠ defaultName)
    (hds : get (stageVars d defaultName c.stage) x = some w)
    (hpg : get (globalVars d P) x = none) (hps : get (stageVars d P c.stage) x = none)
    (hcv : get (compVars c) x = none) (hov : get (ovrVars c P) x = none) :
    get (varsOf (flattenRaw d P) P (flatCompRaw P c)) x = some w := by
  rw [flatten_eq_spec d P c hc x hP, hds, hpg, hps, hcv, hov]
  rfl

/-- … and platform global still outranks default stage (the reason the fold removes names from the default
stage section at all) -/
theorem flatten_platform_global_outranks_default_stage (d : Desc) (P : S) (c : Comp) (hc : c ∈ d.comps) (x : S)
    (w : Val) (hP : P ≠ defaultName)
    (hpg : get (globalVars d P) x = some w) (hps : get (stageVars d P c.stage) x = none)
    (hcv : get (compVars c) x = none) (hov : get (ovrVars c P) x = none) :
    get (varsOf (flattenRaw d P) P (flatCompRaw P c)) x = some w := by
  rw [flatten_eq_spec d P c hc x hP, hpg, hps, hcv, hov]
  rfl

/-- **flatten_preserves_resolution**.  Every text (option value, variable value) interpolates in the
flattened description to exactly what it interpolates to in the original one - same value, same error, for
every fuel, strict or primitive: the resolution reads its variables through `get` only
(`interp_congr`) and the fold preserves every `get` (`flatten_preserves_layering`). -/
theorem flatten_preserves_resolution (d : Desc) (P : S) (c : Comp) (hc : c ∈ d.comps) (prim : Bool)
    (f : Nat) (done s : S) :
    interp f (varsOf (flattenRaw d P) P (flatCompRaw P c)) prim done s = interp f (varsOf d P c) prim done s :=
  interp_congr _ _ prim (flatten_preserves_layering d P c hc) f done s

/-- a result does not depend on the fuel it was obtained with -/
theorem interp_deterministic (ctx : Fields) (prim : Bool) (f g : Nat) (s a b : S)
    (ha : interp f ctx prim [] s = .ok a) (hb : interp g ctx prim [] s = .ok b) : a = b := by
  have h1 := acyclic_variables_terminate_partial ctx prim f g s a ha
  have h2 := acyclic_variables_terminate_partial ctx prim g f s b hb
  rw [Nat.add_comm] at h2
  rw [h1] at h2
  cases h2
  rfl

/-- `V'` is `V` with some variables replaced by *their own resolved value*: what the interpolation passes
of `instance()` do to the variables they can resolve completely -/
def PreEvaluated (V V' : Fields) : Prop :=
  ∀ x, get V' x = get V x ∨
    ∃ v r g, get V x = some (.str v) ∧ get V' x = some (.str r) ∧ interp g V false [] v = .ok r

/-- **preevaluation_preserves_resolution**: replacing variables by their own resolved values never changes
what any text resolves to (strict resolution, every fuel): pre-interpolating at flattening time is invisible
to a later successful resolution. -/
theorem preevaluation_preserves_resolution (V V' : Fields) (h : PreEvaluated V V') :
    ∀ (f : Nat) (done s t : S), interp f V false done s = .ok t → interp f V' false done s = .ok t := by
  intro f
  induction f with
  | zero => intro done s t ht; simp [interp] at ht
  | succ f ih =>
    intro done s t ht
    rw [interp] at ht ⊢
    cases hf : findRef s with
    | none => rw [hf] at ht; exact ht
    | some tr =>
      obtain ⟨pre, x, post⟩ := tr
      rw [hf] at ht
      simp only at ht ⊢
      by_cases hdot : List.contains x '.' = true
      · rw [if_pos hdot] at ht; cases ht
      · rw [if_neg hdot] at ht; rw [if_neg hdot]
        cases hg : Tree.get V x with
        | none => rw [hg] at ht; simp at ht
        | some val =>
          rw [hg] at ht
          rcases h x with heq | ⟨v, r, g, hv, hv', hr⟩
          · rw [heq, hg]
            cases val with
            | str sv =>
              simp only at ht ⊢
              cases hin : interp f V false [] sv with
              | error e => rw [hin] at ht; simp at ht
              | ok v1 =>
                rw [hin] at ht
                simp only at ht
                rw [ih _ _ _ hin]
                exact ih _ _ _ ht
            | int n => exact ih _ _ _ ht
            | bool b => exact ih _ _ _ ht
            | flt r => exact ih _ _ _ ht
            | null => simp at ht
            | list xs => simp at ht
            | dict kvs => simp at ht
          · rw [hg] at hv
            cases hv
            rw [hv']
            simp only at ht ⊢
            cases hin : interp f V false [] v with
            | error e => rw [hin] at ht; simp at ht
            | ok v1 =>
              rw [hin] at ht
              simp only at ht
              have hrv : r = v1 := interp_deterministic V false g f v r v1 hr hin
              subst hrv
              cases f with
              | zero => simp [interp] at hin
              | succ f' =>
                have hfin := interp_result_finished V _ _ _ hr
                have href := interp_fixpoint V _ _ _ hr
                have hr' : interp (f' + 1) V' false [] r = .ok r := by
                  simp only [interp, href, List.nil_append, hfin]
                rw [hr']
                exact ih _ _ _ ht

/-- strict success is monotone in the context: a text that resolves with the variables of an inner scope
resolves to the same value with more variables around, provided none of the inner ones is shadowed -/
theorem interp_context_mono (K V : Fields) (hsub : ∀ x w, get K x = some w → get V x = some w) :
    ∀ (f : Nat) (done s t : S), interp f K false done s = .ok t → interp f V false done s = .ok t := by
  intro f
  induction f with
  | zero => intro done s t ht; simp [interp] at ht
  | succ f ih =>
    intro done s t ht
    rw [interp] at ht ⊢
    cases hf : findRef s with
    | none => rw [hf] at ht; exact ht
    | some tr =>
      obtain ⟨pre, x, post⟩ := tr
      rw [hf] at ht
      simp only at ht ⊢
      by_cases hdot : List.contains x '.' = true
      · rw [if_pos hdot] at ht; cases ht
      · rw [if_neg hdot] at ht; rw [if_neg hdot]
        cases hg : Tree.get K x with
        | none => rw [hg] at ht; simp at ht
        | some val =>
          rw [hg] at ht
          rw [hsub x val hg]
          cases val with
          | str sv =>
            simp only at ht ⊢
            cases hin : interp f K false [] sv with
            | error e => rw [hin] at ht; simp at ht
            | ok v1 =>
              rw [hin] at ht
              simp only at ht
              rw [ih _ _ _ hin]
              exact ih _ _ _ ht
          | int n => exact ih _ _ _ ht
          | bool b => exact ih _ _ _ ht
          | flt r => exact ih _ _ _ ht
          | null => simp at ht
          | list xs => simp at ht
          | dict kvs => simp at ht

/-- the passes of `instance()` keep the keys of the dictionary they rewrite, and every value they touch is
either kept or replaced by the result of the function applied -/
theorem get_mapFields (g : Val → Except Err Val) : ∀ (a b : Fields), mapFields g a = .ok b → ∀ x,
    (Tree.get a x = none ∧ Tree.get b x = none) ∨
      ∃ v v', Tree.get a x = some v ∧ Tree.get b x = some v' ∧ g v = .ok v' := by
  intro a
  induction a with
  | nil => intro b h x; simp only [mapFields] at h; cases h; exact Or.inl ⟨rfl, rfl⟩
  | cons hd tl ih =>
    intro b h x
    obtain ⟨k, v⟩ := hd
    simp only [mapFields] at h
    cases hg : g v with
    | error e => rw [hg] at h; cases h
    | ok v' =>
      rw [hg] at h
      simp only at h
      cases hm : mapFields g tl with
      | error e => rw [hm] at h; cases h
      | ok tl' =>
        rw [hm] at h
        cases h
        simp only [Tree.get]
        by_cases hk : k = x
        · simp only [hk, if_true]; exact Or.inr ⟨v, v', rfl, rfl, hg⟩
        · simp only [hk, if_false]; exact ih tl' hm x

/-- **the strict passes of `instance()` are pre-evaluations** (the loop over the global variables with
`A = K =` the merged global variables, the loop over the stage variables with `A =` the merged stage
variables and `K =` global + stage): every value is either kept or replaced by what it resolves to in ANY
context `V` that extends the pass's context `K` without shadowing it - so by
`preevaluation_preserves_resolution` a later resolution in `V` cannot tell the difference. -/
theorem flatten_strict_pass_is_preevaluation (fuel : Nat) (K A B V : Fields)
    (h : mapFields (interpOrKeep fuel K false) A = .ok B)
    (hsub : ∀ x w, Tree.get K x = some w → Tree.get V x = some w) (x : S) :
    Tree.get B x = Tree.get A x ∨
      ∃ v r, Tree.get A x = some (.str v) ∧ Tree.get B x = some (.str r) ∧ interp fuel V false [] v = .ok r := by
  rcases get_mapFields _ A B h x with ⟨ha, hb⟩ | ⟨v, v', ha, hb, hg⟩
  · exact Or.inl (by rw [ha, hb])
  · cases v with
    | str sv =>
      simp only [interpOrKeep] at hg
      cases hin : interp fuel K false [] sv with
      | ok r =>
        rw [hin] at hg
        cases hg
        exact Or.inr ⟨sv, r, ha, hb, interp_context_mono K V hsub fuel [] sv r hin⟩
      | error e =>
        rw [hin] at hg
        cases e <;> first | (cases hg; exact Or.inl (by rw [ha, hb])) | cases hg
    | int n => simp only [interpOrKeep] at hg; cases hg; exact Or.inl (by rw [ha, hb])
    | bool b => simp only [interpOrKeep] at hg; cases hg; exact Or.inl (by rw [ha, hb])
    | flt r => simp only [interpOrKeep] at hg; cases hg; exact Or.inl (by rw [ha, hb])
    | null => simp [interpOrKeep] at hg
    | list xs => simp [interpOrKeep] at hg
    | dict kvs => simp [interpOrKeep] at hg

/-- the tolerant interpolation (`ignore_errors=True`: second pass over the global variables, component
variables, blueprints) agrees with the strict one whenever the strict one succeeds -/
theorem interpSoft_of_interp_ok (ctx : Fields) (prim : Bool) : ∀ (f : Nat) (done s r : S),
    interp f ctx prim done s = .ok r → interpSoft f ctx prim done s = .ok r := by
  intro f
  induction f with
  | zero => intro done s r h; simp [interp] at h
  | succ f ih =>
    intro done s r h
    rw [interp] at h
    rw [interpSoft]
    cases hf : findRef s with
    | none =>
      rw [hf] at h
      simp only at h ⊢
      unfold finish at h
      unfold finishSoft
      split at h
      · cases h
      · rename_i hb
        split at h
        · cases h
        · cases h; rw [if_neg hb]
    | some tr =>
      obtain ⟨pre, x, post⟩ := tr
      rw [hf] at h
      simp only at h ⊢
      by_cases hdot : List.contains x '.' = true
      · rw [if_pos hdot] at h; cases h
      · rw [if_neg hdot] at h; rw [if_neg hdot]
        cases hg : Tree.get ctx x with
        | none =>
          rw [hg] at h
          simp only at h ⊢
          by_cases hp : (prim && x == replicaName) = true
          · rw [if_pos hp] at h; exact ih _ _ _ h
          · rw [if_neg hp] at h; cases h
        | some val =>
          rw [hg] at h
          cases val with
          | str sv =>
            simp only at h ⊢
            cases hin : interp f ctx prim [] sv with
            | error e => rw [hin] at h; simp at h
            | ok v' =>
              rw [hin] at h
              simp only at h ⊢
              exact ih _ _ _ h
          | int n => exact ih _ _ _ h
          | bool b => exact ih _ _ _ h
          | flt r => exact ih _ _ _ h
          | null => simp at h
          | list xs => simp at h
          | dict kvs => simp at h

/-! ## Pins on the regenerated table, non-vacuity -/

/-- the type table still declares what the property's examples rely on -/
theorem pin_type_table :
    (match St4sd.Gen.C04.typeTable with
     | .node fs => (match tyGet fs "resourceRequest".toList with
        | some (.node g) => (match tyGet g "numberProcesses".toList with | some (.leaf .int) => true | _ => false)
        | _ => false)
     | _ => false) = true := by decide

/-- the built-in defaults are a dictionary with `command.interpreter = None` -/
theorem pin_defaults :
    lookupPath ["command".toList, "interpreter".toList] St4sd.Gen.C04.defaultComponent = some .null := by rfl

private def d0 : Desc :=
  { platforms := [defaultName, ['p']],
    blueprint := [(defaultName, (.dict [("command".toList, .dict [("arguments".toList, .str ['D'])])], [])),
                  (['p'], (.dict [("command".toList, .dict [("arguments".toList, .str ['P'])])], []))],
    variables := [], comps := [] }
private def c0 : Comp := ⟨0, ['c'], [("command".toList, .dict [("executable".toList, .str ['x'])])]⟩

/-- hypotheses of `resolve_eq_spec` are satisfiable, and the platform layer wins over the default one -/
example : (∀ l ∈ layers d0 ['p'] c0, leafAt ["command".toList, "arguments".toList] l = true) ∧
    (∃ v, layerAll (.dict []) (layers d0 ['p'] c0) = .ok v ∧
      lookupPath ["command".toList, "arguments".toList] v = some (.str ['P'])) := by
  refine ⟨by decide, _, rfl, by rfl⟩

/-- hypotheses of `resolveF_eq_spec` are satisfiable without the built-in defaults (the variant `instance()`
asks when an instance description is written), and the platform layer still wins over the default one -/
example : (∀ l ∈ layersF d0 ['p'] c0 false, leafAt ["command".toList, "arguments".toList] l = true) ∧
    (∃ v, layerAll (.dict []) (layersF d0 ['p'] c0 false) = .ok v ∧
      lookupPath ["command".toList, "arguments".toList] v = some (.str ['P']) ∧
      lookupPath ["command".toList, "interpreter".toList] v = none) := by
  refine ⟨by decide, _, rfl, by rfl, by rfl⟩

/-- a chain of depth 6 resolves with little fuel -/
example : interp 40
    [(['a', '0'], .str ['v']), (['a', '1'], .str "%(a0)s".toList), (['a', '2'], .str "x%(a1)s".toList),
     (['a', '3'], .str "%(a2)s".toList), (['a', '4'], .str "%(a3)s".toList), (['a', '5'], .str "%(a4)s".toList),
     (['a', '6'], .str "%(a5)s/%(a0)s".toList)] false [] "%(a6)s".toList = .ok "xv/v".toList := by rfl

/-- an undefined variable: error, not "left in place" -/
example : interp 40 [(['a'], .str ['v'])] false [] "%(a)s %(b)s".toList = .error (.unknownVariable ['b']) := by rfl

private def dF : Desc :=
  { platforms := [defaultName, ['p']], blueprint := [],
    variables := [(defaultName, { global := [(['v'], .str "dg".toList), (['w'], .str "wdg".toList)],
                                  stages := [(0, [(['v'], .str "ds".toList)])] }),
                  (['p'], { global := [(['w'], .str "wpg".toList)], stages := [] })],
    comps := [⟨0, ['c'],
      [("stage".toList, .int 0), ("name".toList, .str ['c']),
       ("command".toList, .dict [("arguments".toList, .str "%(chain)s %(w)s".toList)]),
       ("variables".toList, .dict [("chain".toList, .str "<%(v)s>".toList)])]⟩] }
private def cF : Comp := ⟨0, ['c'],
      [("stage".toList, .int 0), ("name".toList, .str ['c']),
       ("command".toList, .dict [("arguments".toList, .str "%(chain)s %(w)s".toList)]),
       ("variables".toList, .dict [("chain".toList, .str "<%(v)s>".toList)])]⟩

/-- the hypotheses of `flatten_default_stage_outranks_default_global` are satisfiable: `v` is defined by the
default global AND the default stage section, platform `p` is selected and does not mention it … -/
example : cF ∈ dF.comps ∧ (['p'] : S) ≠ defaultName ∧
    Tree.get (stageVars dF defaultName cF.stage) ['v'] = some (.str "ds".toList) ∧
    Tree.get (globalVars dF defaultName) ['v'] = some (.str "dg".toList) ∧
    Tree.get (globalVars dF ['p']) ['v'] = none ∧ Tree.get (stageVars dF ['p'] cF.stage) ['v'] = none ∧
    Tree.get (compVars cF) ['v'] = none ∧ Tree.get (ovrVars cF ['p']) ['v'] = none := by
  refine ⟨by simp [dF, cF], by decide, rfl, rfl, rfl, rfl, rfl, rfl⟩

/-- `command.arguments` of an answer, as text (empty when there is none) -/
def argumentsOf (r : Except Err Val) : S :=
  match r with
  | .ok v => (match lookupPath ["command".toList, "arguments".toList] v with
    | some (.str s) => s
    | _ => [])
  | .error _ => []

/-- … and the REAL fold (`flatten`, with its interpolation passes, type conversion and override trimming)
of that description resolves the component on `p` to the stage value (through a chain of variables) and to
the platform-global value of `w` - the same answer as the original description gives. -/
example :
    (match flatten 60 dF ['p'] false true with
     | .ok fd => argumentsOf (resolve fd ['p'] 0 ['c'] false 60)
     | .error _ => []) = "<ds> wpg".toList ∧
    argumentsOf (resolve dF ['p'] 0 ['c'] false 60) = "<ds> wpg".toList := by
  decide +kernel

/-! ### siblings in the fold, several variable files: non-vacuity -/

/-- the fold visits the components one by one: every flattened component is `flatComp` of the flattened
variable sections and of ONE component of the description, and every component has its flattened form -/
theorem flatComps_pointwise (fuel : Nat) (d : Desc) (P : S) (prim inject : Bool) (fv : FlatVars) :
    ∀ (cs cs' : List Comp), flatComps fuel d P prim inject fv cs = .ok cs' →
      (∀ c' ∈ cs', ∃ c ∈ cs, flatComp fuel d P prim inject fv c = .ok c') ∧
      (∀ c ∈ cs, ∃ c' ∈ cs', flatComp fuel d P prim inject fv c = .ok c') := by
  intro cs
  induction cs with
  | nil =>
    intro cs' h
    simp only [flatComps, Except.ok.injEq] at h
    subst h
    simp
  | cons c r ih =>
    intro cs' h
    simp only [flatComps] at h
    cases hc : flatComp fuel d P prim inject fv c with
    | error e => rw [hc] at h; cases h
    | ok c1 =>
      rw [hc] at h
      cases hr : flatComps fuel d P prim inject fv r with
      | error e => rw [hr] at h; cases h
      | ok r' =>
        rw [hr] at h
        simp only [Except.ok.injEq] at h
        subst h
        obtain ⟨ih1, ih2⟩ := ih r' hr
        constructor
        · intro c' hc'
          rcases List.mem_cons.mp hc' with h0 | h0
          · subst h0; exact ⟨c, by simp, hc⟩
          · obtain ⟨c0, hm, he⟩ := ih1 c' h0
            exact ⟨c0, by simp [hm], he⟩
        · intro c0 hc0
          rcases List.mem_cons.mp hc0 with h0 | h0
          · subst h0; exact ⟨c1, by simp, hc⟩
          · obtain ⟨c', hm, he⟩ := ih2 c0 h0
            exact ⟨c', by simp [hm], he⟩

/-- **flatten_sibling_isolation**: in `instance()` the flattened form of a component (its variables resolved
in the context global < stage < the component's OWN variables, its options, its override) is a function of the
platforms, blueprints, variables of the description and of the component's own body: no other component of
the stage - whichever the fold visited before - contributes a variable to its context. -/
theorem flatten_sibling_isolation (fuel : Nat) (d d' : Desc) (P : S) (prim inject : Bool) (fv : FlatVars) (c : Comp)
    (h1 : d'.platforms = d.platforms) (h2 : d'.blueprint = d.blueprint) (h3 : d'.variables = d.variables) :
    flatComp fuel d' P prim inject fv c = flatComp fuel d P prim inject fv c := by
  unfold flatComp
  rw [sibling_isolation d d' P c ⟨true, false, prim, inject⟩ fuel h1 h2 h3]

/-- **flatten_components_pointwise**: a successful `instance()` is, component by component, `flatComp` with
ONE set of flattened variable sections (computed from the variable sections of the description alone) -/
theorem flatten_components_pointwise (fuel : Nat) (d fd : Desc) (P : S) (prim inject : Bool)
    (h : flatten fuel d P prim inject = .ok fd) :
    ∃ fv, flatVars fuel d P prim = .ok fv ∧
      (∀ c' ∈ fd.comps, ∃ c ∈ d.comps, flatComp fuel d P prim inject fv c = .ok c') ∧
      (∀ c ∈ d.comps, ∃ c' ∈ fd.comps, flatComp fuel d P prim inject fv c = .ok c') := by
  unfold flatten at h
  split at h
  · cases h
  · split at h
    · cases h
    · rename_i fv hv
      split at h
      · cases h
      · rename_i comps hc
        split at h
        · cases h
        · split at h
          · cases h
          · simp only [Except.ok.injEq] at h
            subst h
            exact ⟨fv, hv, flatComps_pointwise fuel d P prim inject fv d.comps comps hc⟩

private def sibBody (n : S) (vars : Fields) (args : String) : Fields :=
  [("stage".toList, .int 0), ("name".toList, .str n),
   ("command".toList, .dict [("arguments".toList, .str args.toList)]),
   ("variables".toList, .dict vars)]

/-- two siblings of one stage: `alpha` privately shadows `left` and reaches `right` through one of its own
variables, `beta` privately shadows `right` and reaches `left` -/
private def dSib : Desc :=
  { platforms := [defaultName], blueprint := [],
    variables := [(defaultName, { global := [("left".toList, .str "GL".toList), ("right".toList, .str "GR".toList)],
                                  stages := [] })],
    comps := [⟨0, "alpha".toList, sibBody "alpha".toList
                [("left".toList, .str "A".toList), ("uses".toList, .str "%(right)s".toList)] "%(uses)s"⟩,
              ⟨0, "beta".toList, sibBody "beta".toList
                [("right".toList, .str "B".toList), ("uses".toList, .str "%(left)s".toList)] "%(uses)s"⟩] }

/-- … through the fold each of them resolves its chain to the GLOBAL value: the private variable of the
sibling is invisible, in whichever order the two are flattened -/
example :
    (match flatten 60 dSib defaultName false true with
     | .ok fd => (argumentsOf (resolve fd defaultName 0 "alpha".toList false 60),
                  argumentsOf (resolve fd defaultName 0 "beta".toList false 60))
     | .error _ => ([], [])) = ("GR".toList, "GL".toList) ∧
    (match flatten 60 { dSib with comps := dSib.comps.reverse } defaultName false true with
     | .ok fd => (argumentsOf (resolve fd defaultName 0 "alpha".toList false 60),
                  argumentsOf (resolve fd defaultName 0 "beta".toList false 60))
     | .error _ => ([], [])) = ("GR".toList, "GL".toList) := by
  decide +kernel

private def fileA : UserVars :=
  { global := [("g1".toList, .str "A".toList), ("shared".toList, .str "A".toList)],
    stages := [(0, [("keep".toList, .str "A".toList), ("shadow".toList, .str "A".toList)]),
               (1, [("keep".toList, .str "A1".toList)])] }
private def fileB : UserVars :=
  { global := [("g2".toList, .str "B".toList), ("shared".toList, .str "B".toList)],
    stages := [(0, [("shadow".toList, .str "B".toList)])] }

private theorem plain_fileA : PlainUser fileA := plainUser_of_B fileA (by decide)

/-- the hypothesis of `user_files_eq_spec` is satisfiable by a file with two stage sections -/
example : PlainUser fileA := plain_fileA

/-- two files with a section for the SAME stage: the later one shadows `shadow` only, `keep` of the earlier
file survives; the sections of other stages and the global names of both files are all there -/
example :
    Tree.get (stageOf (layerUserFiles [fileA, fileB]) 0) "keep".toList = some (.str "A".toList) ∧
    Tree.get (stageOf (layerUserFiles [fileA, fileB]) 0) "shadow".toList = some (.str "B".toList) ∧
    Tree.get (stageOf (layerUserFiles [fileA, fileB]) 1) "keep".toList = some (.str "A1".toList) ∧
    Tree.get (layerUserFiles [fileA, fileB]).global "g1".toList = some (.str "A".toList) ∧
    Tree.get (layerUserFiles [fileA, fileB]).global "g2".toList = some (.str "B".toList) ∧
    Tree.get (layerUserFiles [fileA, fileB]).global "shared".toList = some (.str "B".toList) := by
  refine ⟨by rfl, by rfl, by rfl, by rfl, by rfl, by rfl⟩

/-! ### variable files in the INI flavour (`*.conf`: `DOSINIExperimentConfiguration._fetch_user_variables`) -/

/-- **stage_section_roundtrip**: the section-name → scope map of the `.conf` loader sends every spelling of
`stage` (any letter case) followed by the decimal digits of `n` to stage `n` - for EVERY `n`, whatever its
number of digits. -/
theorem stage_section_roundtrip (p : S) (n : Nat) (hp : lower p = stageWord) :
    stageSectionIndex (p ++ natToDigits n) = some n :=
  stageSectionIndex_spelling p n hp

/-- **two_digit_stage_sections**: `[STAGE<n>]` is the scope of stage `n` and of no other stage: sections of
different stages (`STAGE1`, `STAGE10`, `STAGE11`, `STAGE100`, …) never share a scope. -/
theorem two_digit_stage_sections (m n : Nat) :
    stageSectionIndex (stageSectionName n) = some n ∧
    (stageSectionIndex (stageSectionName m) = stageSectionIndex (stageSectionName n) → m = n) := by
  have h : ∀ k, stageSectionIndex (stageSectionName k) = some k :=
    fun k => stageSectionIndex_spelling "STAGE".toList k (by decide)
  refine ⟨h n, ?_⟩
  intro e
  rw [h m, h n] at e
  exact Option.some.inj e

/-- **conf_file_scopes**: a `.conf` variable file all of whose sections other than `[GLOBAL]` are stage
sections is accepted; its `global` scope is `[GLOBAL]` and its scope for stage `i` is the LAST section that
names stage `i` - nothing else. -/
theorem conf_file_scopes (cf : ConfFile)
    (hall : ∀ e ∈ confStageSections cf, (stageSectionIndex e.1).isSome = true) :
    ∃ u, confUser cf = some u ∧ u.global = confGlobal cf ∧
      ∀ i, lookupN u.stages i = sectionFor (confStageSections cf) i := by
  obtain ⟨st, hst, hlook⟩ := confStagesAux_spec (confStageSections cf) [] hall
  refine ⟨⟨confGlobal cf, st⟩, ?_, rfl, ?_⟩
  · simp only [confUser, hst]
  · intro i
    rw [hlook i]
    cases sectionFor (confStageSections cf) i <;> rfl

/-- **conf_section_reaches_its_stage**: in a `.conf` file whose stage sections name pairwise different
stages, the options of the section spelled `stage<n>` (any letter case, any number of digits) are exactly the
user's variables for stage `n`. -/
theorem conf_section_reaches_its_stage (cf : ConfFile)
    (hall : ∀ e ∈ confStageSections cf, (stageSectionIndex e.1).isSome = true)
    (hnd : ((confStageSections cf).map (fun e => stageSectionIndex e.1)).Nodup)
    (p : S) (n : Nat) (f : Fields) (hp : lower p = stageWord)
    (hmem : (p ++ natToDigits n, f) ∈ confStageSections cf) :
    ∃ u, confUser cf = some u ∧ stageOf u n = f := by
  obtain ⟨u, hu, _, hst⟩ := conf_file_scopes cf hall
  refine ⟨u, hu, ?_⟩
  unfold stageOf
  rw [hst n, sectionFor_of_mem _ hnd _ f n hmem (stageSectionIndex_spelling p n hp)]
  rfl

/-- **conf_user_variable_layering**: the user-supplied layer of `user_variables_eq_spec_default` when the
variables come from such a `.conf` file: a variable of a component of stage `n` is looked up in the
component's override and own variables, then in `[stage<n>]`, then in `[GLOBAL]`, then in the stage and
global settings of the package. -/
theorem conf_user_variable_layering (d : Desc) (cf : ConfFile) (N : Nat) (c : Comp) (x : S)
    (hdef : defaultName ∈ d.platforms) (hi : c.stage < N)
    (hall : ∀ e ∈ confStageSections cf, (stageSectionIndex e.1).isSome = true)
    (hnd : ((confStageSections cf).map (fun e => stageSectionIndex e.1)).Nodup)
    (p : S) (f : Fields) (hp : lower p = stageWord)
    (hmem : (p ++ natToDigits c.stage, f) ∈ confStageSections cf) :
    ∃ u, confUser cf = some u ∧
      get (varsOf (patchUser d u N) defaultName c) x =
        firstSome [get (ovrVars c defaultName) x, get (compVars c) x, get f x, get (confGlobal cf) x,
                   get (stageVars d defaultName c.stage) x, get (globalVars d defaultName) x] := by
  obtain ⟨u, hu, hg, hst⟩ := conf_file_scopes cf hall
  refine ⟨u, hu, ?_⟩
  have hs : stageOf u c.stage = f := by
    unfold stageOf
    rw [hst c.stage, sectionFor_of_mem _ hnd _ f c.stage hmem (stageSectionIndex_spelling p c.stage hp)]
    rfl
  rw [user_variables_eq_spec_default d u N c x hdef hi, hs, hg]

private def confFile12 : ConfFile :=
  [("GLOBAL".toList, [("tag".toList, .str "user-global".toList)]),
   ("STAGE1".toList, [("x".toList, .str "one".toList)]),
   ("stage10".toList, [("x".toList, .str "ten".toList)]),
   ("Stage11".toList, [("x".toList, .str "eleven".toList)])]

/-- the hypotheses of `conf_section_reaches_its_stage` are satisfiable by a file with `[STAGE1]`, `[stage10]`
and `[Stage11]`; each section is the scope of its own stage and stage 1 keeps its own section -/
example :
    (∀ e ∈ confStageSections confFile12, (stageSectionIndex e.1).isSome = true) ∧
    ((confStageSections confFile12).map (fun e => stageSectionIndex e.1)).Nodup ∧
    (match confUser confFile12 with
     | some u => (Tree.get (stageOf u 1) "x".toList, Tree.get (stageOf u 10) "x".toList,
                  Tree.get (stageOf u 11) "x".toList, Tree.get u.global "tag".toList)
     | none => (none, none, none, none)) =
      (some (.str "one".toList), some (.str "ten".toList), some (.str "eleven".toList),
       some (.str "user-global".toList)) := by
  refine ⟨by decide, by decide, by rfl⟩

/-- a section that is neither `[GLOBAL]` nor a stage section makes the loader fail -/
example : confUser [("STAGEX".toList, [])] = none ∧ confUser [("global".toList, [])] = none := by
  refine ⟨by rfl, by rfl⟩

/-- **stage_blueprint_repeats_platform_global**: the stage scope of the flattened description (two blueprint
scopes only) keeps the documented order default stage < platform global < platform stage: when the default
stage blueprint says something and `P` is not the default platform, the platform's GLOBAL blueprint is layered
between the default-stage and the platform-stage blueprint (`lookup_override` then gives the value of every
leaf route); on the default platform, or under an empty default stage blueprint, nothing is repeated. -/
theorem stage_blueprint_repeats_platform_global (d : Desc) (P : S) (i : Nat) :
    (falsy (bpStage d defaultName i) = false → P ≠ defaultName →
      stageBpBaseRaw d P i = override (bpStage d defaultName i) (bpGlobal d P) ∧
      (clash (bpStage d defaultName i) (bpGlobal d P) = false → stageBpBase d P i = .ok (stageBpBaseRaw d P i))) ∧
    (stageBpBaseRaw d defaultName i = bpStage d defaultName i) ∧
    (falsy (bpStage d defaultName i) = true → stageBpBaseRaw d P i = bpStage d defaultName i) := by
  refine ⟨?_, ?_, ?_⟩
  · intro hf hP
    have hr : repeatsPlatformGlobal d P i = true := by simp [repeatsPlatformGlobal, hf, hP]
    refine ⟨by simp [stageBpBaseRaw, hr], ?_⟩
    intro hc
    simp [stageBpBase, stageBpBaseRaw, hr, hc]
  · simp [stageBpBaseRaw, repeatsPlatformGlobal]
  · intro hf
    simp [stageBpBaseRaw, repeatsPlatformGlobal, hf]

/-! ## Array-indexed references (`Model/TreeArray.lean`) -/

/-- **occurrences_resolve_independently**: the resolved text of `a ++ b` is the resolved text of `a` followed
by the resolved text of `b` - what stands before an occurrence never changes what it is replaced by. -/
theorem resolveSegs_append (f : Nat) (ctx : Fields) : ∀ (a b : List Seg) (u v : S),
    resolveSegs f ctx a = .ok u → resolveSegs f ctx b = .ok v → resolveSegs f ctx (a ++ b) = .ok (u ++ v) := by
  intro a
  induction a with
  | nil => intro b u v ha hb; simp [resolveSegs] at ha; subst ha; simpa using hb
  | cons s r ih =>
    intro b u v ha hb
    simp only [resolveSegs] at ha
    cases hs : segValue f ctx s with
    | error e => rw [hs] at ha; cases ha
    | ok w =>
      rw [hs] at ha
      cases hr : resolveSegs f ctx r with
      | error e => rw [hr] at ha; cases ha
      | ok u' =>
        rw [hr] at ha
        cases ha
        simp only [List.cons_append, resolveSegs, hs, ih b u' v hr hb, List.append_assoc]

/-- **occurrence_value_position_independent**: in a text that resolves, the occurrence at ANY position is
replaced by `segValue` of that occurrence alone (a function of the variables and of the occurrence - not of
the text before it, not of the text behind it), and the rest of the text resolves as it does on its own. -/
theorem occurrence_value_position_independent (f : Nat) (ctx : Fields) : ∀ (a b : List Seg) (s : Seg) (r : S),
    resolveSegs f ctx (a ++ s :: b) = .ok r →
    ∃ u w v, resolveSegs f ctx a = .ok u ∧ segValue f ctx s = .ok w ∧ resolveSegs f ctx b = .ok v ∧
      r = u ++ w ++ v := by
  intro a
  induction a with
  | nil =>
    intro b s r h
    simp only [List.nil_append, resolveSegs] at h
    cases hs : segValue f ctx s with
    | error e => rw [hs] at h; cases h
    | ok w =>
      rw [hs] at h
      cases hb : resolveSegs f ctx b with
      | error e => rw [hb] at h; cases h
      | ok v => rw [hb] at h; cases h; exact ⟨[], w, v, rfl, rfl, rfl, by simp⟩
  | cons t a ih =>
    intro b s r h
    simp only [List.cons_append, resolveSegs] at h
    cases ht : segValue f ctx t with
    | error e => rw [ht] at h; cases h
    | ok tv =>
      rw [ht] at h
      cases hr : resolveSegs f ctx (a ++ s :: b) with
      | error e => rw [hr] at h; cases h
      | ok r' =>
        rw [hr] at h
        cases h
        obtain ⟨u, w, v, hu, hw, hv, hr'⟩ := ih b s r' hr
        refine ⟨tv ++ u, w, v, ?_, hw, hv, ?_⟩
        · simp only [resolveSegs, ht, hu]
        · rw [hr']; simp [List.append_assoc]

/-- **plain_then_indexed**: a text that uses a variable plainly and LATER with an array index resolves to
the whole value at the plain occurrence and to the `i`-th word of the same value at the indexed one, the
constant texts around them untouched. -/
theorem plain_then_indexed (f : Nat) (ctx : Fields) (x v w t1 t2 t3 : S) (i : Nat)
    (hv : varValue f ctx x = .ok v) (hw : (splitWords v)[i]? = some w) :
    resolveSegs f ctx [.text t1, .ref x none, .text t2, .ref x (some (.lit i)), .text t3]
      = .ok (t1 ++ v ++ t2 ++ w ++ t3) := by
  simp [resolveSegs, segValue, idxValue, hv, hw]

/-- the same with the index taken from another variable, and in the opposite order -/
theorem indexed_by_variable_then_plain (f : Nat) (ctx : Fields) (x y v w d t1 t2 t3 : S) (i : Nat)
    (hv : varValue f ctx x = .ok v) (hy : varValue f ctx y = .ok d) (hd : digitsToNat? d = some i)
    (hw : (splitWords v)[i]? = some w) :
    resolveSegs f ctx [.text t1, .ref x (some (.var y)), .text t2, .ref x none, .text t3]
      = .ok (t1 ++ w ++ t2 ++ v ++ t3)
    ∧ resolveSegs f ctx [.text t1, .ref x none, .text t2, .ref x (some (.var y)), .text t3]
      = .ok (t1 ++ v ++ t2 ++ w ++ t3) := by
  simp [resolveSegs, segValue, idxValue, hv, hy, hd, hw]

/-- an undefined array variable / index variable is an error, never left in place -/
theorem unknown_array_variable_is_error (f : Nat) (ctx : Fields) (x : S) (n : Nat) (h : get ctx x = none) :
    segValue f ctx (.ref x (some (.lit n))) = .error (.unknownVariable x)
    ∧ ∀ z, segValue f ctx (.ref z (some (.var x))) = .error (.unknownVariable x) := by
  simp [segValue, idxValue, varValue, h]

theorem segValue_congr (ctx ctx' : Fields) (h : ∀ x, get ctx x = get ctx' x) (f : Nat) (s : Seg) :
    segValue f ctx s = segValue f ctx' s := by
  have hv : ∀ x, varValue f ctx x = varValue f ctx' x := by
    intro x; simp only [varValue, h, interp_congr ctx ctx' false h]
  cases s with
  | text t => rfl
  | ref x i =>
    cases i with
    | none => simp only [segValue, hv]
    | some i => cases i <;> simp only [segValue, idxValue, hv]

/-- the resolution of a text with array accesses reads the variables only through `get` -/
theorem resolveSegs_congr (ctx ctx' : Fields) (h : ∀ x, get ctx x = get ctx' x) (f : Nat) :
    ∀ segs, resolveSegs f ctx segs = resolveSegs f ctx' segs := by
  intro segs
  induction segs with
  | nil => rfl
  | cons s r ih => simp only [resolveSegs, segValue_congr ctx ctx' h, ih]

/-- **flatten_preserves_array_resolution**: a text with array-indexed references resolves in the flattened
description (what the runtime executes) to exactly what it resolves to in the original one. -/
theorem flatten_preserves_array_resolution (d : Desc) (P : S) (c : Comp) (hc : c ∈ d.comps) (f : Nat)
    (segs : List Seg) :
    resolveSegs f (varsOf (flattenRaw d P) P (flatCompRaw P c)) segs = resolveSegs f (varsOf d P c) segs :=
  resolveSegs_congr _ _ (flatten_preserves_layering d P c hc) f segs

/-- non-vacuity: `--all %(m)s --mine %(m)s[%(w)s]` with m = `h4 h6 h8`, w = 1 is read as five occurrences and
resolves to `--all h4 h6 h8 --mine h6`; with the two uses swapped to `--mine h6 --all h4 h6 h8` -/
example : interpA 8 [("m".toList, .str "h4 h6 h8".toList), ("w".toList, .int 1)]
    "--all %(m)s --mine %(m)s[%(w)s]".toList = .ok "--all h4 h6 h8 --mine h6".toList := by rfl
example : interpA 8 [("m".toList, .str "h4 h6 h8".toList), ("w".toList, .int 1)]
    "--mine %(m)s[%(w)s] --all %(m)s".toList = .ok "--mine h6 --all h4 h6 h8".toList := by rfl
example : parseSegs 30 "a %(m)s b %(m)s[2]".toList
    = some [.text "a ".toList, .ref "m".toList none, .text " b ".toList, .ref "m".toList (some (.lit 2)),
            .text []] := by decide

end St4sd.C04
