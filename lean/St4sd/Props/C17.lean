import St4sd.Model.Env
import St4sd.Model.C17Vars
import St4sd.Model.C17Scalar
import St4sd.Lemmas.C15Assoc
/-!
# C17 — Component environments are built only from their declared sources

Theorems about `Model/Env.lean` (`envForNode` = `environmentForNode`, conf.py 1163-1383 with
flowir.py 5502-5590).  `has d k` = "`k` is a key of the dictionary `d`".

The last comprehension of `environmentWithName` drops variables whose declared value is the empty string
(conf.py 1362-1367).  The property is about the *sources* of the variables of the result (and their layering
and expansion), all theorems below are stated for the code as it is; `nonempty_declared_kept` states what is
guaranteed to be present.
-/
namespace St4sd.C17
open St4sd.Str St4sd.Assoc St4sd.Env

deriving instance DecidableEq for Except

abbrev has (d : Dict) (k : S) : Prop := (dget d k).isSome = true

/-! ### helper lemmas (private) -/

private theorem has_dupdate (d n : Dict) (k : S) (h : has (dupdate d n) k) : has d k ∨ has n k := by
  unfold has at *
  rw [dget_dupdate] at h
  cases hl : dgetLast n k with
  | none => rw [hl] at h; exact Or.inl h
  | some v =>
    right
    rw [← dgetLast_isSome_iff_dget, hl]; rfl

private theorem dget_expandAll_aux (f : S → Option S) (l : Dict) (k : S) :
    dget (l.filterMap fun kv => (f kv.1).map fun v => (kv.1, v)) k = if k ∈ keys l then f k else none := by
  induction l with
  | nil => simp [dget, keys]
  | cons e r ih =>
    obtain ⟨a, b⟩ := e
    simp only [List.filterMap_cons, keys, List.map_cons, List.mem_cons]
    by_cases hak : a = k
    · subst hak
      cases hf : f a with
      | none =>
        simp only [Option.map_none, true_or, if_true]
        rw [ih]; simp [hf]
      | some v => simp [dget]
    · have hka : ¬ k = a := fun h => hak h.symm
      cases hf : f a with
      | none => simp only [Option.map_none, hka, false_or]; exact ih
      | some v =>
        simp only [Option.map_some, dget, hka, false_or]
        have : (a == k) = false := by simp [hak]
        simp only [this, Bool.false_eq_true, if_false]
        exact ih

/-- key-wise description of the final expansion -/
theorem dget_expandAll (launch env : Dict) (k : S) : dget (expandAll launch env) k = expandVal launch env k := by
  unfold expandAll
  rw [dget_expandAll_aux (expandVal launch env) env k]
  by_cases hk : k ∈ keys env
  · simp [hk]
  · have : dget env k = none := by
      cases h : dget env k with
      | none => rfl
      | some v => exact absurd ((dget_isSome_iff_mem_keys env k).mp (by simp [h])) hk
    simp [hk, expandVal, this]

private theorem has_expandAll (launch env : Dict) (k : S) (h : has (expandAll launch env) k) : has env k := by
  unfold has at *
  rw [dget_expandAll] at h
  unfold expandVal at h
  cases hd : dget env k with
  | none => simp [hd] at h
  | some v => rfl

private theorem has_applyDefaults_fold (launch : Dict) (names : List S) (acc : Dict) (k : S)
    (h : has (names.foldl (importStep launch) acc) k) :
    has acc k ∨ (k ∈ names ∧ has launch k) := by
  induction names generalizing acc with
  | nil => exact Or.inl h
  | cons n r ih =>
    simp only [List.foldl_cons] at h
    rcases ih _ h with h1 | ⟨h1, h2⟩
    · unfold importStep at h1
      cases hl : dget launch n with
      | none => simp only [hl] at h1; exact Or.inl h1
      | some lv =>
        simp only [hl] at h1
        by_cases hnk : n = k
        · subst hnk; exact Or.inr ⟨List.mem_cons_self, by simp [has, hl]⟩
        · left
          cases ha : dget acc n with
          | none =>
            simp only [ha] at h1
            unfold has at h1 ⊢
            rw [dget_dset] at h1
            simpa [hnk] using h1
          | some cur =>
            simp only [ha] at h1
            unfold has at h1 ⊢
            rw [dget_dset] at h1
            simpa [hnk] using h1
    · exact Or.inr ⟨List.mem_cons_of_mem _ h1, h2⟩

private theorem has_applyDefaults (launch env : Dict) (rm : Bool) (k : S) (h : has (applyDefaults launch env rm) k) :
    has env k ∨ (k ∈ importNames env ∧ has launch k) := by
  unfold applyDefaults at h
  unfold importNames
  cases hd : dget env sDEFAULTS with
  | none => simp only [hd] at h; exact Or.inl h
  | some v =>
    simp only [hd] at h ⊢
    cases rm with
    | false => exact has_applyDefaults_fold launch _ env k h
    | true =>
      simp only [if_true] at h
      apply has_applyDefaults_fold launch _ env k
      unfold has at h ⊢
      rw [dget_derase] at h
      by_cases hk : (sDEFAULTS == k) = true
      · simp [hk] at h
      · simpa [hk] using h

private theorem has_addInterp_fold (launch env : Dict) (names : List S) (acc : Dict) (k : S)
    (h : has (names.foldl (interpStep launch env) acc) k) :
    has acc k ∨ (k ∈ names ∧ has launch k) := by
  induction names generalizing acc with
  | nil => exact Or.inl h
  | cons n r ih =>
    simp only [List.foldl_cons] at h
    rcases ih _ h with h1 | ⟨h1, h2⟩
    · unfold interpStep at h1
      cases hl : dget launch n with
      | none => simp only [hl] at h1; exact Or.inl h1
      | some lv =>
        simp only [hl] at h1
        by_cases hh : dhas env n = true
        · simp only [hh, if_true] at h1; exact Or.inl h1
        · simp only [hh, Bool.false_eq_true, if_false] at h1
          by_cases hnk : n = k
          · subst hnk; exact Or.inr ⟨List.mem_cons_self, by simp [has, hl]⟩
          · left
            unfold has at h1 ⊢
            rw [dget_dset] at h1
            simpa [hnk] using h1
    · exact Or.inr ⟨List.mem_cons_of_mem _ h1, h2⟩

/-! ### the property -/

/-- **keys_only_from_declared_sources.**  Every variable of a component's task environment comes from the
runtime's system variables, from the selected source (`selected`: nothing / the default environment /
the named environment of the platform layered over the default platform's), is a launch variable that the
environment imports by name through `DEFAULTS`, or — for interpreter components only — is one of the four
search-path variables of the launch environment.  No other launch variable appears. -/
theorem keys_only_from_declared_sources (sys : Dict) (e : Envs) (plat : S) (launch : Dict) (name : Option S)
    (interp : Bool) (sel r : Dict) (hsel : selected e plat launch name = .ok sel)
    (h : envForNode sys e plat launch name interp = .ok r) (k : S) (hk : has r k) :
    has sys k ∨ has sel k ∨ (k ∈ importNames (dupdate sys sel) ∧ has launch k)
      ∨ (interp = true ∧ k ∈ interpVars ∧ has launch k) := by
  unfold envForNode envWithName at h
  simp only [hsel, if_true] at h
  injection h with h
  subst h
  have step : has (expandAll launch (applyDefaults launch (dupdate sys sel) true)) k →
      has sys k ∨ has sel k ∨ (k ∈ importNames (dupdate sys sel) ∧ has launch k)
        ∨ (interp = true ∧ k ∈ interpVars ∧ has launch k) := by
    intro h1
    rcases has_applyDefaults _ _ _ _ (has_expandAll _ _ _ h1) with h2 | h2
    · rcases has_dupdate _ _ _ h2 with h3 | h3
      · exact Or.inl h3
      · exact Or.inr (Or.inl h3)
    · exact Or.inr (Or.inr (Or.inl h2))
  cases interp with
  | false => exact step hk
  | true =>
    simp only [if_true] at hk
    unfold addInterp at hk
    rcases has_addInterp_fold launch _ interpVars _ k hk with h1 | ⟨h1, h2⟩
    · exact step h1
    · exact Or.inr (Or.inr (Or.inr ⟨rfl, h1, h2⟩))

/-- corollary: a launch variable that is not a system variable, not declared by the selected source, not
imported through `DEFAULTS` and not an interpreter search-path variable never appears. -/
theorem no_launch_leak (sys : Dict) (e : Envs) (plat : S) (launch : Dict) (name : Option S)
    (interp : Bool) (sel r : Dict) (hsel : selected e plat launch name = .ok sel)
    (h : envForNode sys e plat launch name interp = .ok r) (k : S)
    (h1 : ¬ has sys k) (h2 : ¬ has sel k) (h3 : k ∉ importNames (dupdate sys sel))
    (h4 : interp = false ∨ k ∉ interpVars) : dget r k = none := by
  cases hr : dget r k with
  | none => rfl
  | some v =>
    have := keys_only_from_declared_sources sys e plat launch name interp sel r hsel h k (by simp [has, hr])
    rcases this with h | h | h | h
    · exact absurd h h1
    · exact absurd h h2
    · exact absurd h.1 h3
    · rcases h4 with h4 | h4
      · rw [h4] at h; simp at h
      · exact absurd h.2.1 h4

/-- literal of an input document read key-wise (a repeated key keeps its last value) -/
def litGet : Except Err Dict → S → Option S
  | .ok d, k => dgetLast d k
  | .error _, _ => none

/-- **platform_over_default.**  The named environment visible to a platform is, key by key, the value the
platform's own environment of that name declares, else the value the default platform's environment of that
name declares — whichever of the two exist. -/
theorem platform_over_default (e : Envs) (nm plat : S) (r : Dict) (h : getEnv e nm plat = .ok r) (k : S) :
    dget r k = match litGet (platEnv e nm plat) k with
      | some v => some v
      | none => litGet (platEnv e nm sDefault) k := by
  unfold getEnv at h
  by_cases hp : (plat == sDefault) = true
  · have hp' : plat = sDefault := by simpa using hp
    subst hp'
    simp only [BEq.rfl, if_true] at h
    cases hd : platEnv e nm sDefault with
    | error x => simp [hd] at h
    | ok d =>
      simp only [hd] at h
      injection h with h
      subst h
      simp only [litGet, dget_dupdate, dget]
      cases dgetLast d k <;> rfl
  · simp only [hp] at h
    cases hpl : platEnv e nm plat with
    | error x =>
      cases hd : platEnv e nm sDefault with
      | error y => simp [hpl, hd] at h
      | ok d =>
        simp only [hpl, hd] at h
        injection h with h
        subst h
        simp only [litGet, dget_dupdate, dget]
        cases dgetLast d k <;> rfl
    | ok p =>
      cases hd : platEnv e nm sDefault with
      | error y =>
        simp only [hpl, hd] at h
        injection h with h
        subst h
        simp only [litGet, dget_dupdate, dget]
        cases dgetLast p k <;> rfl
      | ok d =>
        simp only [hpl, hd] at h
        injection h with h
        subst h
        simp only [litGet, dget_dupdate, dget]
        cases dgetLast p k <;> cases dgetLast d k <;> rfl

/-- **unknown_env_is_error.**  A named environment (not `none`, not the default one) that neither the selected
platform nor the default platform defines is an error, for every launch environment and interpreter flag. -/
theorem unknown_env_is_error (sys : Dict) (e : Envs) (plat : S) (launch : Dict) (name : Option S) (interp : Bool)
    (h1 : (normName name == sEnvironment) = false) (h2 : (normName name == sNone) = false)
    (hp : platEnv e (normName name) plat = .error .unknownEnv)
    (hd : platEnv e (normName name) sDefault = .error .unknownEnv) :
    envForNode sys e plat launch name interp = .error .unknownEnv := by
  unfold envForNode envWithName selected
  simp only [h1, h2, Bool.false_eq_true, if_false]
  unfold getEnv
  by_cases hpd : (plat == sDefault) = true
  · simp [hpd, hd]
  · simp [hpd, hp, hd]

/-- … and conversely an environment defined on either of the two platforms is never an error. -/
theorem defined_env_is_ok (sys : Dict) (e : Envs) (plat : S) (launch : Dict) (name : Option S) (interp : Bool)
    (h : (∃ d, platEnv e (normName name) plat = .ok d) ∨ (∃ d, platEnv e (normName name) sDefault = .ok d)) :
    ∃ r, envForNode sys e plat launch name interp = .ok r := by
  have hsel : ∃ sel, selected e plat launch name = .ok sel := by
    unfold selected
    by_cases h1 : (normName name == sEnvironment) = true
    · simp [h1]
    · by_cases h2 : (normName name == sNone) = true
      · simp [h1, h2]
      · simp only [h1, h2, Bool.false_eq_true, if_false]
        unfold getEnv
        by_cases hpd : (plat == sDefault) = true
        · have : plat = sDefault := by simpa using hpd
          subst this
          rcases h with ⟨d, hd⟩ | ⟨d, hd⟩ <;> simp [hd]
        · simp only [hpd, Bool.false_eq_true, if_false]
          rcases h with ⟨d, hd⟩ | ⟨d, hd⟩
          · cases hx : platEnv e (normName name) sDefault <;> simp [hd]
          · cases hx : platEnv e (normName name) plat <;> simp [hd]
  obtain ⟨sel, hsel⟩ := hsel
  unfold envForNode envWithName
  simp [hsel]

/-- **none_is_system_only.**  A component that selects the empty environment (`none`, any case) gets nothing
but the runtime's system variables (which never contain a `DEFAULTS` entry) — plus, for interpreter components,
the search-path variables. -/
theorem none_is_system_only (sys : Dict) (e : Envs) (plat : S) (launch : Dict) (name : Option S) (interp : Bool)
    (r : Dict) (hn : normName name = sNone) (hs : dget sys sDEFAULTS = none)
    (h : envForNode sys e plat launch name interp = .ok r) (k : S) (hk : has r k) :
    has sys k ∨ (interp = true ∧ k ∈ interpVars ∧ has launch k) := by
  have hsel : selected e plat launch name = .ok [] := by
    unfold selected
    rw [hn]
    have : (sNone == sEnvironment) = false := by decide
    simp [this]
  rcases keys_only_from_declared_sources sys e plat launch name interp [] r hsel h k hk with h1 | h1 | h1 | h1
  · exact Or.inl h1
  · simp [has, dget] at h1
  · have : importNames (dupdate sys []) = [] := by
      simp [importNames, dupdate, hs]
    rw [this] at h1
    simp at h1
  · exact Or.inr h1

private theorem lower_isEmpty (a : S) : (lower a).isEmpty = a.isEmpty := by
  cases a <;> simp [lower]

/-- **case_insensitive_name.**  The spelling (case) of the environment name a component selects is irrelevant:
two names with the same lower-case form give the same result (`NONE` is `none`, `Environment` the default). -/
theorem case_insensitive_name (sys : Dict) (e : Envs) (plat : S) (launch : Dict) (n₁ n₂ : S) (interp : Bool)
    (h : lower n₁ = lower n₂) :
    envForNode sys e plat launch (some n₁) interp = envForNode sys e plat launch (some n₂) interp := by
  have : normName (some n₁) = normName (some n₂) := by
    unfold normName
    have he : n₁.isEmpty = n₂.isEmpty := by rw [← lower_isEmpty n₁, ← lower_isEmpty n₂, h]
    simp only [he, h]
  unfold envForNode envWithName selected
  rw [this]

/-! ### expansion reads only what the value mentions -/

/-- the result of `$NAME`/`${NAME}` substitution depends on the mapping only through the names that the
string references (both for `string.Template.safe_substitute` and `os.path.expandvars`) -/
theorem render_congr (lk₁ lk₂ : S → Option S) (ts : List Tok) (h : ∀ n ∈ refNames ts, lk₁ n = lk₂ n) :
    render lk₁ ts = render lk₂ ts := by
  induction ts with
  | nil => rfl
  | cons t r ih =>
    cases t with
    | lit c => simp only [render]; rw [ih (fun n hn => h n (by simpa [refNames] using hn))]
    | ref n o =>
      simp only [render]
      rw [h n (by simp [refNames]), ih (fun m hm => h m (by simp [refNames, hm]))]

/-- **value_depends_only_on_mentioned_launch_vars.**  The expanded value of a variable depends on the launch
environment only through the names that are still referenced after the value has been expanded from the
environment itself: two launch environments that agree on those names give the same value. -/
theorem value_depends_only_on_mentioned_launch_vars (env l₁ l₂ : Dict) (k : S)
    (h : ∀ v, dget env k = some v →
      ∀ n ∈ refNames (tokE .normal (substT (dget env) v)), dget l₁ n = dget l₂ n) :
    expandVal l₁ env k = expandVal l₂ env k := by
  unfold expandVal
  cases hd : dget env k with
  | none => rfl
  | some v =>
    simp only
    split
    · rfl
    · unfold expandvars
      rw [render_congr _ _ _ (h v hd)]

/-- first the environment itself, then the launch environment: a reference to a variable of the environment
is never resolved from the launch environment.  (Stated on tokens: after self-substitution of a value that is
a single reference `$n` to a variable the environment defines with a reference-free value `w`, the launch
environment is not consulted.) -/
theorem self_before_launch (env l₁ l₂ : Dict) (k n w : S) (hk : dget env k = some ('$' :: n))
    (htok : tokT .normal ('$' :: n) = [.ref n ('$' :: n)]) (hn : dget env n = some w)
    (hw : refNames (tokE .normal w) = []) :
    expandVal l₁ env k = expandVal l₂ env k := by
  apply value_depends_only_on_mentioned_launch_vars
  intro v hv
  rw [hk] at hv
  injection hv with hv
  subst hv
  simp [substT, htok, render, hn, hw]

/-- what is guaranteed to be present: a variable of the system variables / selected source whose value, after
the `DEFAULTS` imports, is not the empty string (variables with an empty value are dropped, as coded). -/
theorem nonempty_declared_kept (launch env : Dict) (k v : S) (h : dget env k = some v) (hv : v.isEmpty = false) :
    has (expandAll launch env) k := by
  unfold has
  rw [dget_expandAll]
  simp [expandVal, h, hv]

/-! ### the document a replicated configuration reads (`FlowIRConcrete.instance`) -/

private theorem keys_dset_nodup (d : Dict) (k v : S) (h : (keys d).Nodup) : (keys (dset d k v)).Nodup := by
  induction d with
  | nil => simp [dset, keys]
  | cons e r ih =>
    obtain ⟨a, b⟩ := e
    simp only [keys, List.map_cons, List.nodup_cons] at h
    by_cases hak : a = k
    · subst hak
      simpa [dset, keys] using h
    · simp only [dset, hak, beq_iff_eq, if_false, keys, List.map_cons, List.nodup_cons]
      refine ⟨?_, ih h.2⟩
      intro hm
      have h1 := (dget_isSome_iff_mem_keys (dset r k v) a).mpr (by simpa [keys] using hm)
      rw [dget_dset] at h1
      have hka : ¬ k = a := fun x => hak x.symm
      simp only [beq_iff_eq, hka, if_false] at h1
      exact h.1 (by simpa [keys] using (dget_isSome_iff_mem_keys r a).mp h1)

private theorem keys_dupdate_nodup (d n : Dict) (h : (keys d).Nodup) : (keys (dupdate d n)).Nodup := by
  unfold dupdate
  induction n generalizing d with
  | nil => simpa using h
  | cons e r ih => simp only [List.foldl_cons]; exact ih _ (keys_dset_nodup d e.1 e.2 h)

/-- `dict(d).update(p)` read key-wise -/
private theorem dget_layered (d p : Dict) (k : S) :
    dget (dupdate [] (dupdate (dupdate [] d) p)) k = match dgetLast p k with
      | some v => some v
      | none => dgetLast d k := by
  have hn : (keys (dupdate (dupdate [] d) p)).Nodup :=
    keys_dupdate_nodup _ _ (keys_dupdate_nodup [] d (by simp [keys]))
  rw [dget_dupdate, dgetLast_eq_dget_of_nodup _ hn, dget_dupdate, dget_dupdate]
  cases dgetLast p k <;> cases dgetLast d k <;> simp [dget]

private theorem dget_copy (d : Dict) (k : S) : dget (dupdate [] d) k = dgetLast d k := by
  rw [dget_dupdate]; cases dgetLast d k <;> simp [dget]

private theorem dget_layer_fold (d p : List (S × Dict)) (ks : List S) (acc : List (S × Dict)) (n : S) :
    dget (ks.foldl (layerStep d p) acc) n =
      if n ∈ ks then some (dupdate (dupdate [] ((dget d n).getD [])) ((dget p n).getD [])) else dget acc n := by
  induction ks generalizing acc with
  | nil => simp
  | cons a r ih =>
    simp only [List.foldl_cons, ih, List.mem_cons]
    by_cases hr : n ∈ r
    · simp [hr]
    · simp only [hr, if_false, or_false]
      unfold layerStep
      rw [dget_dset]
      by_cases han : a = n
      · subst han; simp
      · have : ¬ n = a := fun h => han h.symm
        simp [han, this]

/-- lookup of one (lower-case) environment name in the flattened environments: the platform's environment
layered over the default platform's when the platform defines the name, else the default platform's -/
private theorem dget_flatEnvs (e : Envs) (plat n : S) :
    dget (flatEnvs e plat) n =
      let d := if plat == sDefault then [] else (dget e sDefault).getD []
      match dget ((dget e plat).getD []) n with
      | some pn => some (dupdate (dupdate [] ((dget d n).getD [])) pn)
      | none => dget d n := by
  unfold flatEnvs
  simp only [dget_layer_fold]
  cases hp : dget ((dget e plat).getD []) n with
  | none =>
    have : n ∉ keys ((dget e plat).getD []) := fun hm => by
      have := (dget_isSome_iff_mem_keys _ n).mpr hm
      simp [hp] at this
    simp [this]
  | some pn =>
    have : n ∈ keys ((dget e plat).getD []) := (dget_isSome_iff_mem_keys _ n).mp (by simp [hp])
    simp [this]

private theorem platEnv_of_named (e : Envs) (nm plat : S) (h : (lower nm == sNone) = false) :
    platEnv e nm plat = match dget ((dget e plat).getD []) (lower nm) with
      | some x => .ok x
      | none => .error .unknownEnv := by
  unfold platEnv
  simp only [h, Bool.false_eq_true, if_false]
  cases dget e plat with
  | none => simp [dget]
  | some pe => simp only [Option.getD_some]; cases dget pe (lower nm) <;> rfl

private theorem getEnv_inst (e : Envs) (nm plat : S) (h : (lower nm == sNone) = false) :
    getEnv (instEnvs e plat) nm plat = match dget (flatEnvs e plat) (lower nm) with
      | some x => .ok (dupdate [] x)
      | none => .error .unknownEnv := by
  unfold getEnv instEnvs
  by_cases hp : (plat == sDefault) = true
  · have hp' : plat = sDefault := by simpa using hp
    subst hp'
    simp only [BEq.rfl, if_true, platEnv_of_named _ _ _ h, dget, Option.getD_some]
    cases dget (flatEnvs e sDefault) (lower nm) <;> rfl
  · have hp2 : (sDefault == plat) = false := by
      cases hx : (sDefault == plat) with
      | false => rfl
      | true => exact absurd (by simpa using hx : sDefault = plat) (fun x => hp (by simp [x]))
    simp only [hp, Bool.false_eq_true, if_false, platEnv_of_named _ _ _ h, dget, hp2, BEq.rfl, if_true,
      Option.getD_some]
    cases dget (flatEnvs e plat) (lower nm) <;> rfl

/-- **instance_platform_over_default.**  Also in the document that `instance(platform)` produces — the one every
replicated (non-primitive) configuration, hence every running experiment, reads — the named environment visible
to the platform is, key by key, the value the platform's own environment of that name declares *in the package*
(`e`), else the value the default platform's environment of that name declares: flattening keeps the layering
(as repaired by fixes/C17-instance-environment-layering.diff; `Witness/C17.lean` shows the old code did not). -/
theorem instance_platform_over_default (e : Envs) (nm plat : S) (r : Dict)
    (h : getEnv (instEnvs e plat) nm plat = .ok r) (k : S) :
    dget r k = match litGet (platEnv e nm plat) k with
      | some v => some v
      | none => litGet (platEnv e nm sDefault) k := by
  by_cases hn : (lower nm == sNone) = true
  · -- `none`: the empty environment on every platform of every document
    have h1 : ∀ (e' : Envs) (pl : S), platEnv e' nm pl = .ok [] := fun e' pl => by simp [platEnv, hn]
    unfold getEnv at h
    simp only [h1] at h
    have : r = [] := by
      by_cases hp : (plat == sDefault) = true
      · simp only [hp, if_true] at h; injection h with h; rw [← h]; rfl
      · simp only [hp, Bool.false_eq_true, if_false] at h; injection h with h; rw [← h]; rfl
    subst this
    simp [h1, litGet, dgetLast, dget]
  · have hn' : (lower nm == sNone) = false := by simpa using hn
    rw [getEnv_inst e nm plat hn', dget_flatEnvs] at h
    rw [platEnv_of_named e nm plat hn', platEnv_of_named e nm sDefault hn']
    by_cases hp : (plat == sDefault) = true
    · have hp' : plat = sDefault := by simpa using hp
      subst hp'
      simp only [BEq.rfl, if_true] at h
      cases hpn : dget ((dget e sDefault).getD []) (lower nm) with
      | none => simp [hpn, dget] at h
      | some pn =>
        simp only [hpn, dget, Option.getD_none] at h
        injection h with h
        subst h
        rw [dget_layered]
        simp only [litGet, dgetLast]
        cases dgetLast pn k <;> rfl
    · simp only [hp, Bool.false_eq_true, if_false] at h
      cases hpn : dget ((dget e plat).getD []) (lower nm) with
      | none =>
        simp only [hpn] at h
        cases hdn : dget ((dget e sDefault).getD []) (lower nm) with
        | none => simp [hdn] at h
        | some dn =>
          simp only [hdn] at h
          injection h with h
          subst h
          simp only [litGet, dget_copy]
      | some pn =>
        simp only [hpn] at h
        injection h with h
        subst h
        rw [dget_layered]
        cases hdn : dget ((dget e sDefault).getD []) (lower nm) with
        | none => simp [litGet, dgetLast]
        | some dn => simp [litGet]

/-- **instance_reload_platform_over_default.**  … and the same after the instance document has been stored and
loaded again (a configuration loaded from an instance directory applies `instance(platform)` to the stored
instance document): flattening twice is, key by key, flattening once. -/
theorem instance_reload_platform_over_default (e : Envs) (nm plat : S) (r : Dict)
    (h : getEnv (instEnvs (instEnvs e plat) plat) nm plat = .ok r) (k : S) :
    dget r k = match litGet (platEnv e nm plat) k with
      | some v => some v
      | none => litGet (platEnv e nm sDefault) k := by
  suffices hs : ∃ r1, getEnv (instEnvs e plat) nm plat = .ok r1 ∧ dget r k = dget r1 k by
    obtain ⟨r1, h1, h2⟩ := hs
    rw [h2]
    exact instance_platform_over_default e nm plat r1 h1 k
  by_cases hn : (lower nm == sNone) = true
  · have h1 : ∀ (e' : Envs) (pl : S), platEnv e' nm pl = .ok [] := fun e' pl => by simp [platEnv, hn]
    unfold getEnv at h ⊢
    simp only [h1] at h ⊢
    by_cases hp : (plat == sDefault) = true
    · simp only [hp, if_true] at h ⊢
      injection h with h
      exact ⟨_, rfl, by rw [← h]⟩
    · simp only [hp, Bool.false_eq_true, if_false] at h ⊢
      injection h with h
      exact ⟨_, rfl, by rw [← h]⟩
  · have hn' : (lower nm == sNone) = false := by simpa using hn
    rw [getEnv_inst _ nm plat hn', dget_flatEnvs] at h
    rw [getEnv_inst e nm plat hn']
    by_cases hp : (plat == sDefault) = true
    · have hp' : plat = sDefault := by simpa using hp
      subst hp'
      simp only [BEq.rfl, if_true, instEnvs, dget, Option.getD_some, Option.getD_none] at h
      cases hf : dget (flatEnvs e sDefault) (lower nm) with
      | none => simp [hf] at h
      | some x =>
        simp only [hf] at h
        injection h with h
        subst h
        refine ⟨_, rfl, ?_⟩
        have hnd : (keys (dupdate (dupdate [] ([] : Dict)) x)).Nodup :=
          keys_dupdate_nodup _ _ (keys_dupdate_nodup [] [] (by simp [keys]))
        calc dget (dupdate [] (dupdate (dupdate [] ([] : Dict)) x)) k
            = dgetLast (dupdate (dupdate [] ([] : Dict)) x) k := dget_copy _ k
          _ = dget (dupdate (dupdate [] ([] : Dict)) x) k := dgetLast_eq_dget_of_nodup _ hnd k
          _ = dgetLast x k := by rw [dget_dupdate]; cases dgetLast x k <;> simp [dupdate, dget]
          _ = dget (dupdate [] x) k := (dget_copy x k).symm
    · have hp2 : (sDefault == plat) = false := by
        cases hx : (sDefault == plat) with
        | false => rfl
        | true => exact absurd (by simpa using hx : sDefault = plat) (fun x => hp (by simp [x]))
      simp only [hp, Bool.false_eq_true, if_false, instEnvs, dget, hp2, BEq.rfl, if_true, Option.getD_some] at h
      cases hf : dget (flatEnvs e plat) (lower nm) with
      | none => simp [hf] at h
      | some x =>
        simp only [hf] at h
        injection h with h
        subst h
        exact ⟨_, rfl, rfl⟩

/-- **instance_defined_iff.**  Flattening neither invents nor loses environments: a name is an error for the
replicated configuration exactly when it is one for the package (neither the platform nor the default platform
defines it). -/
theorem instance_defined_iff (e : Envs) (nm plat : S) :
    (∃ r, getEnv (instEnvs e plat) nm plat = .ok r) ↔ (∃ r, getEnv e nm plat = .ok r) := by
  by_cases hn : (lower nm == sNone) = true
  · have h1 : ∀ (e' : Envs) (pl : S), platEnv e' nm pl = .ok [] := fun e' pl => by simp [platEnv, hn]
    unfold getEnv
    simp only [h1]
  · have hn' : (lower nm == sNone) = false := by simpa using hn
    rw [getEnv_inst e nm plat hn', dget_flatEnvs]
    unfold getEnv
    rw [platEnv_of_named e nm plat hn', platEnv_of_named e nm sDefault hn']
    by_cases hp : (plat == sDefault) = true
    · have hp' : plat = sDefault := by simpa using hp
      subst hp'
      simp only [BEq.rfl, if_true]
      cases dget ((dget e sDefault).getD []) (lower nm) <;> simp [dget]
    · simp only [hp, Bool.false_eq_true, if_false]
      cases dget ((dget e plat).getD []) (lower nm) <;>
        cases dget ((dget e sDefault).getD []) (lower nm) <;> simp

/-! ### one configuration object, many calls -/

/-- **step_preserves_conf.**  No call changes what the configuration object builds environments from. -/
theorem step_preserves_conf (launch : Dict) (c : Conf) (call : Call) : (step launch c call).1 = c := rfl

/-- **env_call_sequence_independent.**  On one configuration object the answer to a call does not depend on
the calls served before it (environments of other components, of other names, the default environment,
callers rewriting the dictionaries they were handed): every answer of a session is the answer a fresh object
gives — so all single-call theorems above hold for every call of every session. -/
theorem env_call_sequence_independent (launch : Dict) (c : Conf) (calls : List Call) :
    runCalls launch c calls = calls.map (answer launch c) := by
  induction calls with
  | nil => rfl
  | cons call rest ih => simp only [runCalls, step, List.map_cons, ih]

/-- … in particular for a call after any prefix -/
theorem env_after_any_prefix (launch : Dict) (c : Conf) (pre : List Call) (call : Call) :
    (runCalls launch c (pre ++ [call])).getLast? = some (answer launch c call) := by
  rw [env_call_sequence_independent]
  simp

/-! ### non-vacuity -/

private def envs0 : Envs := loadEnvs
  [("default".toList, [("MyEnv".toList, [("A".toList, "1".toList), ("B".toList, "$A/x".toList),
      ("EMPTY".toList, []), ("DEFAULTS".toList, "FOO".toList)])]),
   ("plat".toList, [("myenv".toList, [("A".toList, "2".toList), ("C".toList, "${L}".toList)])])]
private def launch0 : Dict := [("L".toList, "LL".toList), ("FOO".toList, "foo".toList), ("SECRET".toList, "s".toList),
  ("PATH".toList, "/bin".toList)]
private def sys0 : Dict := [("INSTANCE_DIR".toList, "/i".toList)]

example : envForNode sys0 envs0 "plat".toList launch0 (some "MYENV".toList) true =
    .ok [("INSTANCE_DIR".toList, "/i".toList), ("A".toList, "2".toList), ("B".toList, "2/x".toList),
         ("C".toList, "LL".toList), ("FOO".toList, "foo".toList), ("PATH".toList, "/bin".toList)] := by decide
example : envForNode sys0 envs0 "plat".toList launch0 (some "nosuch".toList) false = .error .unknownEnv := by decide
example : envForNode sys0 envs0 "plat".toList launch0 (some "None".toList) false = .ok sys0 := by decide
example : selected envs0 "plat".toList launch0 (some "MYENV".toList) =
    .ok [("A".toList, "2".toList), ("B".toList, "$A/x".toList), ("EMPTY".toList, []), ("DEFAULTS".toList, "FOO".toList),
         ("C".toList, "${L}".toList)] := by decide
example : tokT .normal "$A".toList = [.ref "A".toList "$A".toList] := by decide
/-- the replicated configuration (instance document of platform `plat`) gives the same layered environment -/
example : envForNode sys0 (instEnvs envs0 "plat".toList) "plat".toList launch0 (some "MYENV".toList) true =
    .ok [("INSTANCE_DIR".toList, "/i".toList), ("A".toList, "2".toList), ("B".toList, "2/x".toList),
         ("C".toList, "LL".toList), ("FOO".toList, "foo".toList), ("PATH".toList, "/bin".toList)] := by decide

/-! ### `%(name)s` references (`Model/C17Vars.lean`) -/

private theorem render_lits_append (lk : S → Option S) (a : S) (ts : List Tok) :
    render lk (lits a ++ ts) = a ++ render lk ts := by
  induction a with
  | nil => rfl
  | cons c r ih => simp only [lits, List.map_cons, List.cons_append, render] at ih ⊢; rw [ih]

private theorem render_lits (lk : S → Option S) (a : S) : render lk (lits a) = a := by
  have := render_lits_append lk a []
  simpa [render] using this

/-- **tokV_lossless.**  The `%(name)s` tokeniser loses nothing: rendering the tokens with no variable defined
gives back the text (every reference keeps its own spelling). -/
theorem tokV_lossless (st : ScV) (s : S) : render (fun _ => none) (tokV st s) = pendV st ++ s := by
  induction s generalizing st with
  | nil => cases st <;> simp [tokV, render_lits]
  | cons c cs ih =>
    cases st with
    | normal =>
      simp only [tokV]
      split
      · rename_i h
        have : c = '%' := by simpa using h
        subst this
        rw [ih]; rfl
      · simp only [render, ih]; rfl
    | pct =>
      simp only [tokV]
      split
      · rename_i h
        have : c = '(' := by simpa using h
        subst this
        rw [ih]; simp [pendV]
      · simp only [render]
        split
        · rename_i h
          have : c = '%' := by simpa using h
          subst this
          rw [ih]; simp [pendV]
        · simp only [render, ih]; simp [pendV]
    | name acc =>
      simp only [tokV]
      split
      · rw [ih]; simp [pendV]
      · split
        · rename_i h
          have hc : c = ')' := by
            have := (Bool.and_eq_true _ _).mp h
            simpa using this.1
          subst hc
          rw [ih]; simp [pendV]
        · rw [render_lits_append]
          split
          · rename_i h
            have : c = '%' := by simpa using h
            subst this
            rw [ih]; simp [pendV]
          · simp only [render, ih]; simp [pendV]
    | close acc =>
      simp only [tokV]
      split
      · rename_i h
        have : c = 's' := by simpa using h
        subst this
        simp only [render, ih]; simp [pendV]
      · rw [render_lits_append]
        split
        · rename_i h
          have : c = '%' := by simpa using h
          subst this
          rw [ih]; simp [pendV]
        · simp only [render, ih]; simp [pendV]

private theorem renderStrict_congr (lk₁ lk₂ : S → Option S) (safe : S → Bool) (ts : List Tok)
    (h : ∀ n ∈ refNames ts, lk₁ n = lk₂ n) : renderStrict lk₁ safe ts = renderStrict lk₂ safe ts := by
  induction ts with
  | nil => rfl
  | cons t r ih =>
    cases t with
    | lit c => simp only [renderStrict]; rw [ih (fun n hn => h n (by simpa [refNames] using hn))]
    | ref n o =>
      simp only [renderStrict]
      rw [h n (by simp [refNames]), ih (fun m hm => h m (by simp [refNames, hm]))]

private theorem renderStrict_no_refs (lk : S → Option S) (safe : S → Bool) (ts : List Tok)
    (h : refNames ts = []) : renderStrict lk safe ts = some (render lk ts) := by
  induction ts with
  | nil => rfl
  | cons t r ih =>
    cases t with
    | lit c => simp only [refNames] at h; simp [renderStrict, render, ih h]
    | ref n o => simp [refNames] at h

/-- **value_without_references_unchanged.**  A value that contains no `%(name)s` reference is what it is, in
every context, strict or not: for such values the model of this file is the model of `Model/Env.lean`. -/
theorem value_without_references_unchanged (ctx : Dict) (safe : S → Bool) (fuel : Nat) (v : S)
    (h : refNames (tokV .normal v) = []) :
    interpKeep ctx safe fuel v = v ∧ interpStrict ctx safe fuel v = some v := by
  have h1 : interpKeep ctx safe fuel v = v := by
    unfold interpKeep
    rw [render_congr _ (fun _ => none) _ (by rw [h]; simp), tokV_lossless]; rfl
  refine ⟨h1, ?_⟩
  unfold interpStrict
  rw [renderStrict_no_refs _ _ _ h]
  exact congrArg some h1

/-- **resolution_reads_only_reachable_variables.**  The resolved value of a variable depends on the context only
through the variables reachable from it by references: two contexts that agree on a set `R` of names which is
closed under "is referenced by the text of" give the same answer for every name of `R` (with any fuel). -/
theorem resolution_reads_only_reachable_variables (c₁ c₂ : Dict) (safe : S → Bool) (R : S → Prop)
    (hagree : ∀ n, R n → dget c₁ n = dget c₂ n)
    (hclosed : ∀ n v, R n → dget c₁ n = some v → ∀ m ∈ refNames (tokV .normal v), R m)
    (fuel : Nat) (n : S) (hn : R n) : resolveV c₁ safe fuel n = resolveV c₂ safe fuel n := by
  induction fuel generalizing n with
  | zero => rfl
  | succ f ih =>
    simp only [resolveV]
    rw [← hagree n hn]
    cases hv : dget c₁ n with
    | none => rfl
    | some v => exact renderStrict_congr _ _ safe _ (fun m hm => ih m (hclosed n v hn hv m hm))

/-- … hence the interpolated text of a value whose references lie in `R` -/
theorem interpolation_reads_only_reachable_variables (c₁ c₂ : Dict) (safe : S → Bool) (R : S → Prop)
    (hagree : ∀ n, R n → dget c₁ n = dget c₂ n)
    (hclosed : ∀ n v, R n → dget c₁ n = some v → ∀ m ∈ refNames (tokV .normal v), R m)
    (fuel : Nat) (v : S) (hv : ∀ m ∈ refNames (tokV .normal v), R m) :
    interpKeep c₁ safe fuel v = interpKeep c₂ safe fuel v ∧
      interpStrict c₁ safe fuel v = interpStrict c₂ safe fuel v := by
  have h : ∀ m ∈ refNames (tokV .normal v), resolveV c₁ safe fuel m = resolveV c₂ safe fuel m :=
    fun m hm => resolution_reads_only_reachable_variables c₁ c₂ safe R hagree hclosed fuel m (hv m hm)
  exact ⟨render_congr _ _ _ h, renderStrict_congr _ _ safe _ h⟩

private theorem dget_map_val (f : Dict → Dict) (l : List (S × Dict)) (n : S) :
    dget (l.map fun ne => (ne.1, f ne.2)) n = (dget l n).map f := by
  induction l with
  | nil => rfl
  | cons e r ih =>
    simp only [List.map_cons, dget]
    split <;> simp [ih]

private theorem dget_map_text (f : S → S) (l : Dict) (k : S) :
    dget (l.map fun kv => (kv.1, f kv.2)) k = (dget l k).map f := by
  induction l with
  | nil => rfl
  | cons e r ih =>
    simp only [List.map_cons, dget]
    split <;> simp [ih]

/-- **instance_env_from_own_entries_and_globals.**  In the instance document, the environment called `n` is the
(layered) environment `n` of the package with every value interpolated in the context *global variables of the
platform overlaid by that environment's own entries* — whatever other environments the package declares, in
whatever order. -/
theorem instance_env_from_own_entries_and_globals (e : Envs) (vars : Vars) (plat : S) (safe : S → Bool) (n : S) :
    dget (flatEnvsV e vars plat safe) n =
      (dget (flatEnvs e plat) n).map (fillEnvInst (instGlobals vars plat safe) safe) := by
  unfold flatEnvsV
  exact dget_map_val _ _ n

/-- … key by key: the text of entry `k`, interpolated with the environment itself and then with
`global variables ∪ own entries` (own entries shadow global variables of the same name, `dget_dupdate`). -/
theorem instance_env_value (g : Dict) (safe : S → Bool) (env : Dict) (k : S) :
    dget (fillEnvInst g safe env) k =
      (dget env k).map fun v =>
        interpKeep (dupdate g env) safe (fuelFor (dupdate g env)) (interpKeep env safe (fuelFor env) v) := by
  unfold fillEnvInst fillKeep
  rw [dget_map_text, dget_map_text]
  cases dget env k <;> rfl

/-- own entries shadow global variables in the interpolation context of an environment -/
theorem own_entries_shadow_globals (g env : Dict) (k v : S) (h : dgetLast env k = some v) :
    dget (dupdate g env) k = some v := by
  rw [dget_dupdate, h]

/-- … and a name the environment does not define is looked up in the global variables only -/
theorem other_names_from_globals (g env : Dict) (k : S) (h : dget env k = none) :
    dget (dupdate g env) k = dget g k := by
  have : dgetLast env k = none := by
    cases hl : dgetLast env k with
    | none => rfl
    | some w =>
      have := dgetLast_isSome_iff_dget env k
      simp [hl, h] at this
  rw [dget_dupdate, this]

private theorem getEnv_mkInst (flat : List (S × Dict)) (nm plat : S) (h : (lower nm == sNone) = false) :
    getEnv (mkInstEnvs plat flat) nm plat = match dget flat (lower nm) with
      | some x => .ok (dupdate [] x)
      | none => .error .unknownEnv := by
  unfold getEnv mkInstEnvs
  by_cases hp : (plat == sDefault) = true
  · have hp' : plat = sDefault := by simpa using hp
    subst hp'
    simp only [BEq.rfl, if_true, platEnv_of_named _ _ _ h, dget, Option.getD_some]
    cases dget flat (lower nm) <;> rfl
  · have hp2 : (sDefault == plat) = false := by
      cases hx : (sDefault == plat) with
      | false => rfl
      | true => exact absurd (by simpa using hx : sDefault = plat) (fun x => hp (by simp [x]))
    simp only [hp, Bool.false_eq_true, if_false, platEnv_of_named _ _ _ h, dget, hp2, BEq.rfl, if_true,
      Option.getD_some]
    cases dget flat (lower nm) <;> rfl

private theorem platEnv_lookup_eq (e₁ e₂ : Envs) (nm plat : S) (h : (lower nm == sNone) = false)
    (heq : platEnv e₁ nm plat = platEnv e₂ nm plat) :
    dget ((dget e₁ plat).getD []) (lower nm) = dget ((dget e₂ plat).getD []) (lower nm) := by
  rw [platEnv_of_named e₁ nm plat h, platEnv_of_named e₂ nm plat h] at heq
  cases h1 : dget ((dget e₁ plat).getD []) (lower nm) <;>
    cases h2 : dget ((dget e₂ plat).getD []) (lower nm) <;> simp_all

/-- **instance_env_independent_of_other_envs.**  Two packages that declare the same environment `nm` for the
selected platform and for the default platform (and the same global variables) have the same environment `nm` in
their instance documents — whatever else they declare: other environments (defining, for instance, variables
whose names collide with global variables that `nm` references), in any order. -/
theorem instance_env_independent_of_other_envs (e₁ e₂ : Envs) (vars : Vars) (nm plat : S) (safe : S → Bool)
    (hp : platEnv e₁ nm plat = platEnv e₂ nm plat) (hd : platEnv e₁ nm sDefault = platEnv e₂ nm sDefault) :
    getEnv (instDoc ⟨e₁, vars⟩ plat safe).envs nm plat = getEnv (instDoc ⟨e₂, vars⟩ plat safe).envs nm plat := by
  by_cases hn : (lower nm == sNone) = true
  · have h1 : ∀ (e' : Envs) (pl : S), platEnv e' nm pl = .ok [] := fun e' pl => by simp [platEnv, hn]
    unfold getEnv
    simp only [h1]
  · have hn' : (lower nm == sNone) = false := by simpa using hn
    simp only [instDoc]
    rw [getEnv_mkInst _ nm plat hn', getEnv_mkInst _ nm plat hn',
      instance_env_from_own_entries_and_globals, instance_env_from_own_entries_and_globals,
      dget_flatEnvs, dget_flatEnvs]
    have h1 := platEnv_lookup_eq e₁ e₂ nm plat hn' hp
    have h2 := platEnv_lookup_eq e₁ e₂ nm sDefault hn' hd
    by_cases hpd : (plat == sDefault) = true
    · simp only [hpd, if_true, h1]
    · simp only [hpd, Bool.false_eq_true, if_false, h1, h2]

/-- the answer of `environmentForNode` depends on the document only through the environment the name selects
(on the selected and the default platform) and the global variables -/
theorem envForNodeV_congr (sys : Dict) (d₁ d₂ : Doc) (plat : S) (launch : Dict) (name : Option S)
    (interp prim : Bool) (hv : d₁.vars = d₂.vars)
    (he : getEnv d₁.envs (normName name) plat = getEnv d₂.envs (normName name) plat) :
    envForNodeV sys d₁ plat launch name interp prim = envForNodeV sys d₂ plat launch name interp prim := by
  have hsel : selected d₁.envs plat launch name = selected d₂.envs plat launch name := by
    unfold selected defaultEnv
    by_cases h1 : (normName name == sEnvironment) = true
    · have : normName name = sEnvironment := by simpa using h1
      rw [this] at he
      simp only [h1, if_true, he]
    · simp only [h1, Bool.false_eq_true, if_false, he]
  unfold envForNodeV envWithName
  rw [hsel, hv]

/-- **task_env_independent_of_other_envs.**  What a task of a replicated experiment gets does not depend on the
environments its component does not select: two packages that agree on the selected environment (on the selected
and on the default platform) and on the global variables give the same `environmentForNode`, value by value. -/
theorem task_env_independent_of_other_envs (sys : Dict) (e₁ e₂ : Envs) (vars : Vars) (plat : S) (launch : Dict)
    (name : Option S) (interp prim : Bool) (safe : S → Bool)
    (hp : platEnv e₁ (normName name) plat = platEnv e₂ (normName name) plat)
    (hd : platEnv e₁ (normName name) sDefault = platEnv e₂ (normName name) sDefault) :
    envForNodeV sys (instDoc ⟨e₁, vars⟩ plat safe) plat launch name interp prim =
      envForNodeV sys (instDoc ⟨e₂, vars⟩ plat safe) plat launch name interp prim :=
  envForNodeV_congr sys _ _ plat launch name interp prim rfl
    (instance_env_independent_of_other_envs e₁ e₂ vars (normName name) plat safe hp hd)

/-- the same for a primitive configuration (which reads the package itself) -/
theorem primitive_task_env_independent_of_other_envs (sys : Dict) (e₁ e₂ : Envs) (vars : Vars) (plat : S)
    (launch : Dict) (name : Option S) (interp prim : Bool)
    (hp : platEnv e₁ (normName name) plat = platEnv e₂ (normName name) plat)
    (hd : platEnv e₁ (normName name) sDefault = platEnv e₂ (normName name) sDefault) :
    envForNodeV sys ⟨e₁, vars⟩ plat launch name interp prim = envForNodeV sys ⟨e₂, vars⟩ plat launch name interp prim := by
  refine envForNodeV_congr sys ⟨e₁, vars⟩ ⟨e₂, vars⟩ plat launch name interp prim rfl ?_
  show getEnv e₁ (normName name) plat = getEnv e₂ (normName name) plat
  unfold getEnv
  rw [hp, hd]

/-- sessions with `%(name)s` references: every answer is the answer of a fresh object -/
theorem env_call_sequence_independent_V (launch : Dict) (c : ConfV) (calls : List Call) :
    runCallsV launch c calls = calls.map (answerV launch c) := by
  induction calls with
  | nil => rfl
  | cons call rest ih => simp only [runCallsV, stepV, List.map_cons, ih]

/-! non-vacuity: the package of `Witness/C17.lean` (`a_tools` defines `prefix`, `b_tools` references the global
variable `prefix`), platform `cluster`, replicated and primitive -/

private def envsV : Envs := loadEnvs
  [("default".toList, [("a_tools".toList, [("prefix".toList, "/opt/a".toList), ("BIN_A".toList, "%(prefix)s/bin".toList)]),
                       ("b_tools".toList, [("BIN_B".toList, "%(prefix)s/bin".toList)])]),
   ("cluster".toList, [("B_Tools".toList, [("LIB_B".toList, "%(prefix)s/lib:$BIN_B".toList)])])]
private def varsV : Vars :=
  [("default".toList, [("prefix".toList, "/global".toList)]), ("cluster".toList, [("prefix".toList, "/cluster".toList)])]

example : envForNodeV sys0 (instDoc ⟨envsV, varsV⟩ "cluster".toList (safeOf false)) "cluster".toList launch0
    (some "B_TOOLS".toList) false false =
    .ok [("INSTANCE_DIR".toList, "/i".toList), ("BIN_B".toList, "/cluster/bin".toList),
         ("LIB_B".toList, "/cluster/lib:/cluster/bin".toList)] := by decide
example : envForNodeV sys0 ⟨envsV, varsV⟩ "cluster".toList launch0 (some "a_tools".toList) false true =
    .ok [("INSTANCE_DIR".toList, "/i".toList), ("prefix".toList, "/opt/a".toList),
         ("BIN_A".toList, "/opt/a/bin".toList)] := by decide
example : envForNodeV sys0 ⟨loadEnvs [("default".toList, [("e".toList, [("K".toList, "%(nosuch)s".toList)])])], []⟩
    "default".toList launch0 (some "e".toList) false false = .error .unknownVar := by decide
example : tokV .normal "a%(x-1)s%(".toList =
    [.lit 'a', .ref "x-1".toList "%(x-1)s".toList, .lit '%', .lit '('] := by decide

/-! ### typed scalars as values (`Model/C17Scalar.lean`)

A FlowIR document may give an environment variable an integer, a float, a boolean or nothing instead of a
string.  `get_platform_environment` converts every value with `env_value_to_string` (`Scalar.text`): the theorems
below restate the layering and the "what is present" theorems for typed documents — a value is never lost because
it is *falsy* (`0`, `0.0`, `false`); only null and the empty string have an empty text. -/

private theorem dget_map_snd {β γ : Type} (f : β → γ) (l : List (S × β)) (k : S) :
    dget (l.map fun kv => (kv.1, f kv.2)) k = (dget l k).map f := by
  induction l with
  | nil => rfl
  | cons e r ih =>
    simp only [List.map_cons, dget]
    split <;> simp [ih]

private theorem dgetLast_map_snd {β γ : Type} (f : β → γ) (l : List (S × β)) (k : S) :
    dgetLast (l.map fun kv => (kv.1, f kv.2)) k = (dgetLast l k).map f := by
  induction l with
  | nil => rfl
  | cons e r ih =>
    simp only [List.map_cons, dgetLast, ih]
    cases dgetLast r k with
    | some w => rfl
    | none =>
      simp only [Option.map_none]
      split <;> rfl

/-- the comprehension of `get_platform_environment`, key by key -/
theorem dget_textDict (d : TDict) (k : S) : dget (textDict d) k = (dget d k).map Scalar.text :=
  dget_map_snd _ _ _

/-- **platEnvT_eq.**  `get_platform_environment` as coded on a typed document (look the environment up, then convert
every value) answers what `platEnv` answers on the text document: converting when the document is loaded and
converting when an environment is read are the same thing. -/
theorem platEnvT_eq (e : TEnvs) (nm plat : S) : platEnvT e nm plat = platEnv (textEnvs e) nm plat := by
  unfold platEnvT platRawT platEnv textEnvs textEnvsWith
  by_cases h : (lower nm == sNone) = true
  · simp [h, textDict, textDictWith]
  · simp only [h, Bool.false_eq_true, if_false]
    rw [dget_map_snd]
    cases dget e plat with
    | none => rfl
    | some pe =>
      simp only [Option.map_some]
      rw [dget_map_snd]
      cases dget pe (lower nm) <;> rfl

/-- literal of a typed input document read key-wise (a repeated key keeps its last value) -/
def litGetT : Except Err TDict → S → Option Scalar
  | .ok d, k => dgetLast d k
  | .error _, _ => none

/-- **typed_platform_over_default.**  For a typed package the named environment visible to a platform is, key by
key, the text of the scalar the platform's own environment of that name declares — *whatever that scalar is*: `0`,
`0.0`, `false` and null included, they override the default platform's value like any other — else the text of
the scalar the default platform's environment declares. -/
theorem typed_platform_over_default (e : TEnvs) (nm plat : S) (r : Dict)
    (h : getEnv (textEnvs e) nm plat = .ok r) (k : S) :
    dget r k = match litGetT (platRawT e nm plat) k with
      | some v => some v.text
      | none => (litGetT (platRawT e nm sDefault) k).map Scalar.text := by
  have key : ∀ p, litGet (platEnv (textEnvs e) nm p) k = (litGetT (platRawT e nm p) k).map Scalar.text := by
    intro p
    rw [← platEnvT_eq]
    unfold platEnvT
    cases platRawT e nm p with
    | error x => rfl
    | ok d => exact dgetLast_map_snd _ _ _
  rw [platform_over_default _ _ _ _ h k, key, key]
  cases litGetT (platRawT e nm plat) k <;> rfl

private theorem natToDigitsAux_ne_nil (fuel n : Nat) (acc : S) (h : acc ≠ []) : natToDigitsAux fuel n acc ≠ [] := by
  induction fuel generalizing n acc with
  | zero => exact h
  | succ f ih =>
    unfold natToDigitsAux
    simp only
    split
    · simp
    · exact ih _ _ (by simp)

private theorem intText_ne_nil (i : Int) : intText i ≠ [] := by
  cases i with
  | ofNat n =>
    unfold intText natToDigits natToDigitsAux
    simp only
    split
    · simp
    · exact natToDigitsAux_ne_nil _ _ _ (by simp)
  | negSucc n => simp [intText]

/-- **text_isEmpty.**  Exactly null and the empty string (and a float without text, which does not exist) are
converted to the empty text: no integer and no boolean — `0` and `false` included — is. -/
theorem text_isEmpty (v : Scalar) : v.text.isEmpty = v.declaredEmpty := by
  cases v with
  | null => rfl
  | bool b => cases b <;> rfl
  | int i =>
    have := intText_ne_nil i
    simp only [Scalar.text, Scalar.declaredEmpty]
    cases hi : intText i with
    | nil => exact absurd hi this
    | cons _ _ => rfl
  | float t => rfl
  | str s => rfl

/-- **typed_declared_kept.**  A variable the (typed) environment declares with a scalar other than null / the
empty string is present after the final expansion — falsy scalars (`0`, `0.0`, `false`) included. -/
theorem typed_declared_kept (launch : Dict) (env : TDict) (k : S) (v : Scalar) (h : dget env k = some v)
    (hv : v.declaredEmpty = false) : has (expandAll launch (textDict env)) k :=
  nonempty_declared_kept launch (textDict env) k v.text (by rw [dget_textDict, h]; rfl) (by rw [text_isEmpty, hv])

private theorem tokT_no_dollar (s : S) (h : ∀ c ∈ s, (c == '$') = false) : tokT .normal s = lits s := by
  induction s with
  | nil => rfl
  | cons c cs ih =>
    have hc := h c (by simp)
    simp only [tokT, hc, Bool.false_eq_true, if_false, lits, List.map_cons]
    rw [ih (fun d hd => h d (by simp [hd]))]
    rfl

private theorem tokE_no_dollar (s : S) (h : ∀ c ∈ s, (c == '$') = false) : tokE .normal s = lits s := by
  induction s with
  | nil => rfl
  | cons c cs ih =>
    have hc := h c (by simp)
    simp only [tokE, hc, Bool.false_eq_true, if_false, lits, List.map_cons]
    rw [ih (fun d hd => h d (by simp [hd]))]
    rfl

/-- **typed_value_verbatim.**  … and its value is the text of the scalar, verbatim, whatever the launch environment
holds under that or any other name (the text of a number or a boolean contains no `$`). -/
theorem typed_value_verbatim (launch : Dict) (env : TDict) (k : S) (v : Scalar) (h : dget env k = some v)
    (hv : v.declaredEmpty = false) (hlit : ∀ c ∈ v.text, (c == '$') = false) :
    dget (expandAll launch (textDict env)) k = some v.text := by
  rw [dget_expandAll]
  unfold expandVal
  rw [dget_textDict, h]
  simp only [Option.map_some]
  rw [text_isEmpty, hv]
  simp only [Bool.false_eq_true, if_false]
  unfold substT expandvars
  rw [tokT_no_dollar _ hlit, render_lits, tokE_no_dollar _ hlit, render_lits]

/-! non-vacuity: `OMP_NUM_THREADS: 0`, `USE_GPU: false`, `SCALE: 0.0` satisfy the hypotheses; a typed package in
which the selected platform re-declares the default platform's `4 / true / 1.5` as `0 / false / 0.0` -/

example : (Scalar.int 0).declaredEmpty = false ∧ (∀ c ∈ (Scalar.int 0).text, (c == '$') = false) := by decide
example : (Scalar.bool false).declaredEmpty = false ∧ (∀ c ∈ (Scalar.bool false).text, (c == '$') = false) := by
  decide
example : (Scalar.float "0.0".toList).declaredEmpty = false ∧
    (∀ c ∈ (Scalar.float "0.0".toList).text, (c == '$') = false) := by decide
example : (Scalar.int (-12)).text = "-12".toList ∧ (Scalar.int 0).text = "0".toList ∧
    (Scalar.int 100000000000000000000).text = "100000000000000000000".toList := by decide

private def envsT : TEnvs :=
  [("default".toList, [("gpu".toList, [("OMP".toList, .int 4), ("USE_GPU".toList, .bool true),
      ("SCALE".toList, .float "1.5".toList), ("UNSET".toList, .str "d".toList),
      ("LAUNCH".toList, .str "run --threads=${OMP} --gpu=$USE_GPU".toList)])]),
   ("single".toList, [("GPU".toList, [("OMP".toList, .int 0), ("USE_GPU".toList, .bool false),
      ("SCALE".toList, .float "0.0".toList), ("UNSET".toList, .null)])])]

example : envForNodeT sys0 envsT "single".toList [("OMP".toList, "64".toList)] (some "gpu".toList) false true false =
    .ok [("INSTANCE_DIR".toList, "/i".toList), ("OMP".toList, "0".toList), ("USE_GPU".toList, "False".toList),
         ("SCALE".toList, "0.0".toList), ("LAUNCH".toList, "run --threads=0 --gpu=False".toList)] := by decide
example : envForNodeT sys0 envsT "single".toList [] (some "gpu".toList) false false false =
    envForNodeT sys0 envsT "single".toList [] (some "gpu".toList) false true false := by decide
example : envForNodeVT sys0 [("default".toList, [("e".toList, [("K".toList, .str "%(n)s/%(b)s/%(K2)s".toList),
      ("K2".toList, .float "0.0".toList)])])] [("default".toList, [("n".toList, .int 0), ("b".toList, .bool false)])]
    "default".toList [] (some "e".toList) false false false =
    .ok [("INSTANCE_DIR".toList, "/i".toList), ("K".toList, "0/False/0.0".toList), ("K2".toList, "0.0".toList)] := by
  decide

end St4sd.C17
