import St4sd.Lemmas.C02e
/-!
# C02 — Components reach the final state the documented rules prescribe, whatever the event order

Model: `St4sd/Model/Ctrl.lean`.  Invariants: `St4sd/Lemmas/C02*.lean`.
-/
namespace St4sd.C02
open St4sd.Ctrl St4sd.C02L

/-- A. At quiescence every component is in `comp_done` and in a final state: no ordering of the
events (kill included) leaves a component pending forever. -/
theorem quiescent_all_final (wf : Wf) (h : wf.WF) (ops : List Op)
    (hq : quiescent wf (run wf ops) = true) :
    ∀ c, c < wf.n → (run wf ops).done c = true ∧ ((run wf ops).comp c).ctrl.isSome = true := by
  have hI := run_inv wf ops
  generalize run wf ops = s at hI hq
  simp only [quiescent, comps, Bool.and_eq_true, List.isEmpty_iff, List.all_eq_true, List.mem_range,
    Bool.not_eq_true'] at hq
  obtain ⟨⟨hpend, hlive⟩, hel⟩ := hq
  have hdone : ∀ c, c < wf.n → s.done c = true := by
    intro c
    induction c using Nat.strongRecOn with
    | _ c ih =>
      intro hc
      cases hd : s.done c with
      | true => rfl
      | false =>
        exfalso
        have hcI := hI.ci c
        have hk6 : (s.comp c).ctrl.isSome = true → False := by
          intro a
          rcases hcI.k6 a with h1 | h1 | h1
          · simp [hd] at h1
          · simp [hpend] at h1
          · simp at h1
        cases hs : (s.comp c).staged with
        | false =>
          obtain ⟨_, hct, _, _, _⟩ := unstaged_facts hcI hs
          have hdeps : depsSatisfied wf s c = true := by
            simp only [depsSatisfied, List.all_eq_true, Bool.or_eq_true]
            intro p hp
            have hpc := h.topo c p hp
            exact Or.inl (ih p hpc (Nat.lt_trans hpc hc))
          have := hel c hc
          simp [eligible, hd, hct, hs, hdeps] at this
        | true =>
          cases hr : (s.comp c).ran with
          | false => exact hk6 (hcI.k4 hs hr)
          | true =>
            cases hex : (s.comp c).exit with
            | none => have := hlive c hc; simp [hr, hex] at this
            | some r =>
              cases hct : (s.comp c).ctrl with
              | none =>
                have := (hcI.k5 hr (by simp [hex]) hct).1
                simp [hpend] at this
              | some f => exact hk6 (by simp [hct])
  intro c hc
  exact ⟨hdone c hc, (hI.ci c).k8 (hdone c hc)⟩

/-- corollary of A: the loop of `Controller.run()` terminates -/
theorem quiescent_stage_done (wf : Wf) (h : wf.WF) (ops : List Op)
    (hq : quiescent wf (run wf ops) = true) : stageDone wf (run wf ops) = true := by
  simp only [stageDone, comps, List.all_eq_true, List.mem_range, Bool.or_eq_true]
  intro c hc
  exact Or.inr (quiescent_all_final wf h ops hq c hc).1

/-- B. In every history (kill included) a final state is either SHUTDOWN or the outcome of the
component's own exit script under the restart policy. -/
theorem final_is_own_or_shutdown (wf : Wf) (ops : List Op) (c : Nat) (f : Fin3) :
    ((run wf ops).comp c).ctrl = some f → f = .shutdown ∨ f = own wf c :=
  ((run_inv wf ops).ci c).b1 f

/-! ## C. agreement with the rule table `spec`

`RepeatSafe wf` (defined in `Lemmas/C02d.lean`): every same-stage producer of a repeating component
is `finished` according to `spec`.  Without it the fate of a repeating observer depends on the
schedule (it may start while its producer still runs, and the producer may later end shut-down or
failed): this is a real finding about the Python code, hence the `_partial` suffix. -/

def NoKill (ops : List Op) : Prop := Op.kill ∉ ops

theorem repeatSafe_def (wf : Wf) : RepeatSafe wf ↔
    ∀ c, c < wf.n → (wf.cdef c).isRepeat = true → ∀ p ∈ (wf.cdef c).preds,
      (wf.cdef p).stage = (wf.cdef c).stage → spec wf p = .finished := Iff.rfl

/-- C1. `spec` satisfies the documented rule: shut down iff the shutdown rule fires on the
`spec` states of the producers, otherwise the outcome of the component's own executions. -/
theorem spec_unfold (wf : Wf) (h : wf.WF) (c : Nat) :
    spec wf c = if ruleShutdown wf (spec wf) c then .shutdown else own wf c :=
  spec_unfold' wf h c

/-- C2. Without a kill, as long as no component is FAILED, every final state is the one `spec`
prescribes, in every interleaving.  (`_partial`: needs `RepeatSafe`.) -/
theorem agree_or_failed_partial (wf : Wf) (h : wf.WF) (hr : RepeatSafe wf) (ops : List Op)
    (hk : NoKill ops) :
    (∀ c, ((run wf ops).comp c).ctrl ≠ some .failed) →
      ∀ c f, c < wf.n → ((run wf ops).comp c).ctrl = some f → f = spec wf c := by
  intro hnf c f _ hf
  rcases run_inv2 h hr ops hk with ⟨d, _, _, hd⟩ | ⟨hG, _⟩
  · exact absurd hd (hnf d)
  · exact hG.agree c f hf

/-- C3. If `spec` has no failure then every quiescent state reached without a kill is exactly
`spec`: the final states do not depend on the order of the events. -/
theorem confluent_without_failure_partial (wf : Wf) (h : wf.WF) (hr : RepeatSafe wf)
    (hs : ∀ c, c < wf.n → spec wf c ≠ .failed) (ops : List Op) (hk : NoKill ops)
    (hq : quiescent wf (run wf ops) = true) :
    ∀ c, c < wf.n → ((run wf ops).comp c).ctrl = some (spec wf c) := by
  intro c hc
  rcases run_inv2 h hr ops hk with ⟨d, hd, hd', _⟩ | ⟨hG, _⟩
  · exact absurd hd' (hs d hd)
  · have := (quiescent_all_final wf h ops hq c hc).2
    cases hct : ((run wf ops).comp c).ctrl with
    | none => simp [hct] at this
    | some f => rw [hG.agree c f hct]

/-- C4. If `spec` has a failure (single-stage workflow) then every quiescent state reached without
a kill contains a FAILED component and `run()` raises `UnexpectedJobFailureError`. -/
theorem failure_is_reported_partial (wf : Wf) (h : wf.WF) (hr : RepeatSafe wf)
    (hf : ∃ c, c < wf.n ∧ spec wf c = .failed) (hst : ∀ c, c < wf.n → (wf.cdef c).stage = 0)
    (ops : List Op) (hk : NoKill ops) (hq : quiescent wf (run wf ops) = true) :
    (∃ c, c < wf.n ∧ ((run wf ops).comp c).ctrl = some .failed) ∧
      verdict wf (run wf ops) = .jobFailure := by
  have hex : ∃ c, c < wf.n ∧ ((run wf ops).comp c).ctrl = some .failed := by
    rcases run_inv2 h hr ops hk with ⟨d, hd, _, hd'⟩ | ⟨hG, hN⟩
    · exact ⟨d, hd, hd'⟩
    · obtain ⟨c, hc, hsp⟩ := hf
      have := (quiescent_all_final wf h ops hq c hc).2
      cases hct : ((run wf ops).comp c).ctrl with
      | none => simp [hct] at this
      | some f =>
        have e := hG.agree c f hct
        rw [hsp] at e; subst e
        exact absurd hct (hN c)
  refine ⟨hex, ?_⟩
  obtain ⟨c, hc, hct⟩ := hex
  have hcur := (run_inv wf ops).cur0
  have : ((comps wf).filter fun c => (wf.cdef c).stage == (run wf ops).cur).any
      (fun c => ((run wf ops).comp c).ctrl == some .failed) = true := by
    rw [List.any_eq_true]
    refine ⟨c, List.mem_filter.2 ⟨by simp [comps, hc], by simp [hcur, hst c hc]⟩, by simp [hct]⟩
  simp only [verdict, this, if_true]

/-! ## D. non-vacuity: a concrete workflow and history -/

/-- source 0; replicas 1 (ends `KnownIssue`, which it declares in `shutdownOn`) and 2;
aggregator 3 of the replicas; plain consumer 4 of replica 1 -/
def cdefEx : Nat → CompDef
  | 0 => {}
  | 1 => { preds := [0], isRepl := true, shutdownOn := [.knownIssue], script := [.knownIssue] }
  | 2 => { preds := [0], isRepl := true }
  | 3 => { preds := [1, 2], isAgg := true }
  | 4 => { preds := [1] }
  | _ => {}

def wfEx : Wf := { n := 5, cdef := cdefEx, order := [3, 4, 1, 0, 2] }

def opsEx : List Op :=
  [.sched, .sched, .exit 0, .pm 0, .fin 0, .sched, .exit 1, .pm 1, .fin 1, .exit 2, .pm 2, .fin 2,
   .sched, .exit 3, .pm 3, .fin 3, .fin 4]

theorem wfEx_wf : wfEx.WF := by
  refine ⟨?_, ?_, ?_⟩
  · intro c
    rcases c with _ | _ | _ | _ | _ | c <;> simp [wfEx, cdefEx]
  · intro c hc; simp [wfEx] at hc ⊢; omega
  · intro c hc; simp [wfEx] at hc ⊢; omega

theorem wfEx_repeatSafe : RepeatSafe wfEx := by
  intro c _ hrep
  rcases c with _ | _ | _ | _ | _ | c <;> simp [wfEx, cdefEx] at hrep

example : wfEx.WF := wfEx_wf
example : RepeatSafe wfEx := wfEx_repeatSafe
example : NoKill opsEx := by unfold NoKill; decide
example : (List.range 5).map (spec wfEx) = [.finished, .shutdown, .finished, .finished, .shutdown] := by
  decide +kernel
example : ∀ c, c < wfEx.n → spec wfEx c ≠ .failed := by
  intro c hc
  have : c < 5 := hc
  rcases c with _ | _ | _ | _ | _ | c
  all_goals first | omega | decide +kernel
example : quiescent wfEx (run wfEx opsEx) = true := by decide +kernel
example : (List.range 5).map (fun c => ((run wfEx opsEx).comp c).ctrl) =
    [some .finished, some .shutdown, some .finished, some .finished, some .shutdown] := by decide +kernel
example : ((run wfEx opsEx).comp 4).ctrl = some .shutdown := by decide +kernel
example : (List.range 5).all (fun c => (run wfEx opsEx).done c) = true := by decide +kernel
example : verdict wfEx (run wfEx opsEx) = .ok := by decide +kernel
/-- the general theorems instantiate on the example -/
example : ∀ c, c < 5 → ((run wfEx opsEx).comp c).ctrl = some (spec wfEx c) :=
  confluent_without_failure_partial wfEx wfEx_wf wfEx_repeatSafe
    (by intro c hc
        have : c < 5 := hc
        rcases c with _ | _ | _ | _ | _ | c
        all_goals first | omega | decide +kernel)
    opsEx (by unfold NoKill; decide) (by decide +kernel)

/-- a failing variant: replica 2 ends `UnknownIssue`; C4 applies -/
def wfBad : Wf := { wfEx with cdef := fun c => if c = 2 then { preds := [0], isRepl := true, script := [.unknownIssue] } else cdefEx c }

example : spec wfBad 2 = .failed := by decide +kernel
example : (List.range 5).map (spec wfBad) = [.finished, .shutdown, .failed, .shutdown, .shutdown] := by
  decide +kernel

def opsBad : List Op :=
  [.sched, .sched, .exit 0, .pm 0, .fin 0, .sched, .exit 2, .pm 2, .fin 2, .exit 1, .fin 3, .fin 4, .fin 1]

theorem wfBad_wf : wfBad.WF := by
  refine ⟨?_, ?_, ?_⟩
  · intro c
    rcases c with _ | _ | _ | _ | _ | c <;> simp [wfBad, wfEx, cdefEx]
  · intro c hc; simp [wfBad, wfEx] at hc ⊢; omega
  · intro c hc; simp [wfBad, wfEx] at hc ⊢; omega

theorem wfBad_repeatSafe : RepeatSafe wfBad := by
  intro c _ hrep
  rcases c with _ | _ | _ | _ | _ | c <;> simp [wfBad, wfEx, cdefEx] at hrep

example : quiescent wfBad (run wfBad opsBad) = true := by decide +kernel
example : (List.range 5).map (fun c => ((run wfBad opsBad).comp c).ctrl) =
    [some .finished, some .shutdown, some .failed, some .shutdown, some .shutdown] := by decide +kernel
example : verdict wfBad (run wfBad opsBad) = .jobFailure := by decide +kernel
/-- C4 instantiates on the failing variant -/
example : (∃ c, c < 5 ∧ ((run wfBad opsBad).comp c).ctrl = some .failed) ∧
    verdict wfBad (run wfBad opsBad) = .jobFailure :=
  failure_is_reported_partial wfBad wfBad_wf wfBad_repeatSafe ⟨2, by decide, by decide +kernel⟩
    (by intro c hc
        have : c < 5 := hc
        rcases c with _ | _ | _ | _ | _ | c
        all_goals first | omega | rfl)
    opsBad (by unfold NoKill; decide) (by decide +kernel)


/-! ### `RepeatSafe` cannot be dropped: a repeating observer of a producer that shuts down
ends FINISHED or SHUTDOWN depending on the schedule (no kill, no failure involved) -/

def wfRep : Wf :=
  { n := 2, order := [0, 1],
    cdef := fun c => match c with
      | 0 => { shutdownOn := [.knownIssue], script := [.knownIssue] }
      | 1 => { preds := [0], isRepeat := true }
      | _ => {} }

/-- the observer is launched while the producer still runs -/
def opsRepA : List Op := [.sched, .sched, .exit 0, .pm 0, .fin 0, .exit 1, .pm 1, .fin 1]
/-- the producer ends before the scheduler looks at the observer again -/
def opsRepB : List Op := [.sched, .exit 0, .pm 0, .fin 0, .sched, .fin 1]

example : (List.range 2).map (spec wfRep) = [.shutdown, .shutdown] := by decide +kernel
example : quiescent wfRep (run wfRep opsRepA) = true ∧
    (List.range 2).map (fun c => ((run wfRep opsRepA).comp c).ctrl) = [some .shutdown, some .finished] := by
  decide +kernel
example : quiescent wfRep (run wfRep opsRepB) = true ∧
    (List.range 2).map (fun c => ((run wfRep opsRepB).comp c).ctrl) = [some .shutdown, some .shutdown] := by
  decide +kernel

end St4sd.C02
