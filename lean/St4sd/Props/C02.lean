import St4sd.Lemmas.C02f
import St4sd.Lemmas.C02g
import St4sd.Model.CtrlEngine
import St4sd.Model.CtrlGrow
import St4sd.Model.CtrlSplit
/-!
# C02 — Components reach the final state the documented rules prescribe, whatever the event order

Model: `St4sd/Model/Ctrl.lean`.  Invariants: `St4sd/Lemmas/C02*.lean`.

Histories are arbitrary sequences of operations, **including the stage transition `Op.next`**
(the stage loop of `elaunch.Run`: `run()` of the current stage is over, `initialise(next stage)`):
parts A–C therefore speak about multi-stage runs, part E states what is specific to them.
-/
namespace St4sd.C02
open St4sd.Ctrl St4sd.C02L

/-- A. At quiescence every component is in `comp_done` and in a final state: no ordering of the
events (kill included) leaves a component pending forever. -/
theorem quiescent_all_final (wf : Wf) (h : wf.WF) (ops : List Op)
    (hq : quiescent wf (run wf ops) = true) :
    ∀ c, c < wf.n → (run wf ops).done c = true ∧ ((run wf ops).comp c).ctrl.isSome = true := by
  have hI := run_inv wf ops
  generalize run wf ops = s at hI hq
  simp only [quiescent, comps, Bool.and_eq_true, List.isEmpty_iff, List.all_eq_true, List.mem_range,
    Bool.not_eq_true'] at hq
  obtain ⟨⟨hpend, hlive⟩, hel⟩ := hq
  have hdone : ∀ c, c < wf.n → s.done c = true := by
    intro c
    induction c using Nat.strongRecOn with
    | _ c ih =>
      intro hc
      cases hd : s.done c with
      | true => rfl
      | false =>
        exfalso
        have hcI := hI.ci c
        have hk6 : (s.comp c).ctrl.isSome = true → False := by
          intro a
          rcases hcI.k6 a with h1 | h1 | h1
          · simp [hd] at h1
          · simp [hpend] at h1
          · simp at h1
        cases hs : (s.comp c).staged with
        | false =>
          obtain ⟨_, hct, _, _, _⟩ := unstaged_facts hcI hs
          have hdeps : depsSatisfied wf s c = true := by
            simp only [depsSatisfied, List.all_eq_true, Bool.or_eq_true]
            intro p hp
            have hpc := h.topo c p hp
            exact Or.inl (ih p hpc (Nat.lt_trans hpc hc))
          have := hel c hc
          simp [eligible, hd, hct, hs, hdeps] at this
        | true =>
          cases hr : (s.comp c).ran with
          | false => exact hk6 (hcI.k4 hs hr)
          | true =>
            cases hex : (s.comp c).exit with
            | none => have := hlive c hc; simp [hr, hex] at this
            | some r =>
              cases hct : (s.comp c).ctrl with
              | none =>
                have := (hcI.k5 hr (by simp [hex]) hct).1
                simp [hpend] at this
              | some f => exact hk6 (by simp [hct])
  intro c hc
  exact ⟨hdone c hc, (hI.ci c).k8 (hdone c hc)⟩

/-- corollary of A: the loop of `Controller.run()` terminates -/
theorem quiescent_stage_done (wf : Wf) (h : wf.WF) (ops : List Op)
    (hq : quiescent wf (run wf ops) = true) : stageDone wf (run wf ops) = true := by
  simp only [stageDone, comps, List.all_eq_true, List.mem_range, Bool.or_eq_true]
  intro c hc
  exact Or.inr (quiescent_all_final wf h ops hq c hc).1

/-- B. In every history (kill included) a final state is either SHUTDOWN or the outcome of the
component's own exit script under the restart policy. -/
theorem final_is_own_or_shutdown (wf : Wf) (ops : List Op) (c : Nat) (f : Fin3) :
    ((run wf ops).comp c).ctrl = some f → f = .shutdown ∨ f = own wf c :=
  ((run_inv wf ops).ci c).b1 f

/-! ## C. agreement with the rule table `spec`

`RepeatSafe wf` (defined in `Lemmas/C02d.lean`): every same-stage producer of a repeating component
is `finished` according to `spec`.  Without it the fate of a repeating observer depends on the
schedule (it may start while its producer still runs, and the producer may later end shut-down or
failed): this is a real finding about the Python code, hence the `_partial` suffix. -/

def NoKill (ops : List Op) : Prop := Op.kill ∉ ops

theorem repeatSafe_def (wf : Wf) : RepeatSafe wf ↔
    ∀ c, c < wf.n → (wf.cdef c).isRepeat = true → ∀ p ∈ (wf.cdef c).preds,
      (wf.cdef p).stage = (wf.cdef c).stage → spec wf p = .finished := Iff.rfl

/-- C1. `spec` satisfies the documented rule: shut down iff the shutdown rule fires on the
`spec` states of the producers, otherwise the outcome of the component's own executions. -/
theorem spec_unfold (wf : Wf) (h : wf.WF) (c : Nat) :
    spec wf c = if ruleShutdown wf (spec wf) c then .shutdown else own wf c :=
  spec_unfold' wf h c

/-- C2. Without a kill, as long as no component is FAILED, every final state is the one `spec`
prescribes, in every interleaving.  (`_partial`: needs `RepeatSafe`.) -/
theorem agree_or_failed_partial (wf : Wf) (h : wf.WF) (hr : RepeatSafe wf) (ops : List Op)
    (hk : NoKill ops) :
    (∀ c, ((run wf ops).comp c).ctrl ≠ some .failed) →
      ∀ c f, c < wf.n → ((run wf ops).comp c).ctrl = some f → f = spec wf c := by
  intro hnf c f _ hf
  rcases run_inv2 h hr ops hk with ⟨d, _, _, hd⟩ | ⟨hG, _⟩
  · exact absurd hd (hnf d)
  · exact hG.agree c f hf

/-- C3. If `spec` has no failure then every quiescent state reached without a kill is exactly
`spec`: the final states do not depend on the order of the events. -/
theorem confluent_without_failure_partial (wf : Wf) (h : wf.WF) (hr : RepeatSafe wf)
    (hs : ∀ c, c < wf.n → spec wf c ≠ .failed) (ops : List Op) (hk : NoKill ops)
    (hq : quiescent wf (run wf ops) = true) :
    ∀ c, c < wf.n → ((run wf ops).comp c).ctrl = some (spec wf c) := by
  intro c hc
  rcases run_inv2 h hr ops hk with ⟨d, hd, hd', _⟩ | ⟨hG, _⟩
  · exact absurd hd' (hs d hd)
  · have := (quiescent_all_final wf h ops hq c hc).2
    cases hct : ((run wf ops).comp c).ctrl with
    | none => simp [hct] at this
    | some f => rw [hG.agree c f hct]

/-- C4. If `spec` has a failure (single-stage workflow: `lastStage = 0`, every component in stage 0)
then every quiescent state reached without a kill contains a FAILED component and `run()` raises
`UnexpectedJobFailureError`.  The multi-stage statement is `failure_is_reported_multistage_partial`. -/
theorem failure_is_reported_partial (wf : Wf) (h : wf.WF) (hr : RepeatSafe wf)
    (hf : ∃ c, c < wf.n ∧ spec wf c = .failed) (hst : ∀ c, c < wf.n → (wf.cdef c).stage = 0)
    (hl : wf.lastStage = 0) (ops : List Op) (hk : NoKill ops) (hq : quiescent wf (run wf ops) = true) :
    (∃ c, c < wf.n ∧ ((run wf ops).comp c).ctrl = some .failed) ∧
      verdict wf (run wf ops) = .jobFailure := by
  have hex : ∃ c, c < wf.n ∧ ((run wf ops).comp c).ctrl = some .failed := by
    rcases run_inv2 h hr ops hk with ⟨d, hd, _, hd'⟩ | ⟨hG, hN⟩
    · exact ⟨d, hd, hd'⟩
    · obtain ⟨c, hc, hsp⟩ := hf
      have := (quiescent_all_final wf h ops hq c hc).2
      cases hct : ((run wf ops).comp c).ctrl with
      | none => simp [hct] at this
      | some f =>
        have e := hG.agree c f hct
        rw [hsp] at e; subst e
        exact absurd hct (hN c)
  refine ⟨hex, ?_⟩
  obtain ⟨c, hc, hct⟩ := hex
  have hcur : (run wf ops).cur = 0 := by
    have := (run_inv wf ops).curLe
    omega
  have : ((comps wf).filter fun c => (wf.cdef c).stage == (run wf ops).cur).any
      (fun c => ((run wf ops).comp c).ctrl == some .failed) = true := by
    rw [List.any_eq_true]
    refine ⟨c, List.mem_filter.2 ⟨by simp [comps, hc], by simp [hcur, hst c hc]⟩, by simp [hct]⟩
  simp only [verdict, this, if_true]

/-! ## E. multi-stage runs

`Op.next` is the stage loop of `elaunch.Run`; `runR` pairs the state with what `run()` reported
for every stage left behind. -/

/-- E1. `Controller.initialise(next stage)` touches no component, `comp_done` or the queue. -/
theorem stage_transition_keeps_components (wf : Wf) (s : St) :
    (step wf s .next).comp = s.comp ∧ (step wf s .next).done = s.done ∧
      (step wf s .next).pending = s.pending := advance_comp wf s

/-- E2. Exactly one final state: once a component is in a final state it stays in that state in
every continuation of the history, stage transitions (and kills) included. -/
theorem final_state_survives_stage_transitions (wf : Wf) (ops ops' : List Op) (c : Nat) (f : Fin3) :
    ((run wf ops).comp c).ctrl = some f → ((run wf (ops ++ ops')).comp c).ctrl = some f := by
  intro h
  have := (run_from_monoC (wf := wf) ops' (run wf ops) (run_inv wf ops)).ctrl c f h
  simpa [run, List.foldl_append] using this

/-- E3. The stage loop never runs past the last stage. -/
theorem cur_le_lastStage (wf : Wf) (ops : List Op) : (run wf ops).cur ≤ wf.lastStage :=
  (run_inv wf ops).curLe

/-- E4. A stage is left behind only when complete: every component of an earlier stage is in a
final state (and stays there by E2). -/
theorem earlier_stages_complete (wf : Wf) (ops : List Op) (c : Nat) (hc : c < wf.n)
    (h : (wf.cdef c).stage < (run wf ops).cur) : ((run wf ops).comp c).ctrl.isSome = true := by
  have := (runR_sinv wf ops).before c hc
  rw [runR_fst] at this
  exact this h

/-- E5. A FAILED component of a stage that the loop has left behind: `run()` reported that stage
as failed (`UnexpectedJobFailureError`) — in every history, kills included. -/
theorem failed_component_stage_was_reported (wf : Wf) (ops : List Op) (c : Nat) (hc : c < wf.n)
    (h : (wf.cdef c).stage < (run wf ops).cur) (hf : ((run wf ops).comp c).ctrl = some .failed) :
    ((wf.cdef c).stage, Verdict.jobFailure) ∈ (runR wf ops).2 := by
  have := (runR_sinv wf ops).rep c hc
  rw [runR_fst] at this
  exact this h hf

/-- E6. Conversely a stage is reported as failed only if one of its components is FAILED, and a
stage that was not reported as `ok` is left behind only under `continue-on-error`. -/
theorem reports_sound (wf : Wf) (ops : List Op) :
    ∀ e ∈ (runR wf ops).2, e.1 < (run wf ops).cur ∧ (e.2 = .ok ∨ wf.contOnErr e.1 = true) ∧
      (e.2 = .jobFailure →
        ∃ c, c < wf.n ∧ (wf.cdef c).stage = e.1 ∧ ((run wf ops).comp c).ctrl = some .failed) := by
  intro e he
  have hS := runR_sinv wf ops
  have h1 := hS.lt e he
  have h3 := hS.sound e he
  rw [runR_fst] at h1 h3
  exact ⟨h1, hS.cont e he, h3⟩

/-- E7. Multi-stage version of C4.  If `spec` has a failure then every no-kill history that is over
(quiescent, and the stage loop cannot go on) contains a FAILED component in a stage that was run,
and for every such component the stage containing it was reported as failed: by the `run()` that
ended the loop, or (under `continue-on-error`) by an earlier one. -/
theorem failure_is_reported_multistage_partial (wf : Wf) (h : wf.WF) (hr : RepeatSafe wf)
    (hls : ∀ c, c < wf.n → (wf.cdef c).stage ≤ wf.lastStage)
    (hf : ∃ c, c < wf.n ∧ spec wf c = .failed) (ops : List Op) (hk : NoKill ops)
    (hq : quiescent wf (run wf ops) = true) (hover : canAdvance wf (run wf ops) = false) :
    (∃ c, c < wf.n ∧ ((run wf ops).comp c).ctrl = some .failed ∧
        (wf.cdef c).stage ≤ (run wf ops).cur) ∧
      ∀ c, c < wf.n → ((run wf ops).comp c).ctrl = some .failed →
        (wf.cdef c).stage ≤ (run wf ops).cur →
        ((wf.cdef c).stage = (run wf ops).cur ∧ verdict wf (run wf ops) = .jobFailure) ∨
        ((wf.cdef c).stage, Verdict.jobFailure) ∈ (runR wf ops).2 := by
  have hex : ∃ c, c < wf.n ∧ ((run wf ops).comp c).ctrl = some .failed := by
    rcases run_inv2 h hr ops hk with ⟨d, hd, _, hd'⟩ | ⟨hG, hN⟩
    · exact ⟨d, hd, hd'⟩
    · obtain ⟨c, hc, hsp⟩ := hf
      have := (quiescent_all_final wf h ops hq c hc).2
      cases hct : ((run wf ops).comp c).ctrl with
      | none => simp [hct] at this
      | some f =>
        have e := hG.agree c f hct
        rw [hsp] at e; subst e
        exact absurd hct (hN c)
  refine ⟨?_, fun c hc hct hle => ?_⟩
  · obtain ⟨c, hc, hct⟩ := hex
    have hcl := (run_inv wf ops).curLe
    by_cases hlt : (run wf ops).cur < wf.lastStage
    · have hsd := quiescent_stage_done wf h ops hq
      simp only [canAdvance, hsd, hlt, decide_true, Bool.true_and, Bool.or_eq_false_iff,
        beq_eq_false_iff_ne, ne_eq] at hover
      cases hv : verdict wf (run wf ops) with
      | ok => exact absurd hv hover.1
      | noFinishedLeaf => have := cur_of_noFinishedLeaf hv; omega
      | jobFailure =>
        obtain ⟨d, hd, hds, hdf⟩ := failed_of_verdict hv
        exact ⟨d, hd, hdf, Nat.le_of_eq hds⟩
    · exact ⟨c, hc, hct, by have := hls c hc; omega⟩
  · by_cases e : (wf.cdef c).stage = (run wf ops).cur
    · exact Or.inl ⟨e, verdict_jobFailure hc e hct⟩
    · exact Or.inr (failed_component_stage_was_reported wf ops c hc (by omega) hct)

/-- E8. A non-aggregating consumer of a shut-down producer — in the same or in any later stage —
ends shut-down in every quiescent no-kill history of a workflow whose rules give no failure. -/
theorem consumer_of_shutdown_producer_partial (wf : Wf) (h : wf.WF) (hr : RepeatSafe wf)
    (hs : ∀ c, c < wf.n → spec wf c ≠ .failed) (ops : List Op) (hk : NoKill ops)
    (hq : quiescent wf (run wf ops) = true) (c p : Nat) (hc : c < wf.n)
    (hp : p ∈ (wf.cdef c).preds) (hna : (wf.cdef c).isAgg = false)
    (hps : ((run wf ops).comp p).ctrl = some .shutdown) :
    ((run wf ops).comp c).ctrl = some .shutdown := by
  have hpn : p < wf.n := Nat.lt_trans (h.topo c p hp) hc
  have hsp : spec wf p = .shutdown := by
    have := confluent_without_failure_partial wf h hr hs ops hk hq p hpn
    rw [hps] at this
    exact (Option.some.inj this).symm
  have hany : (wf.cdef c).preds.any (fun p => spec wf p == .shutdown) = true :=
    List.any_eq_true.2 ⟨p, hp, by simp [hsp]⟩
  have hrule : ruleShutdown wf (spec wf) c = true := by
    simp only [ruleShutdown, hna, Bool.false_eq_true, if_false, hany]
    split <;> rfl
  have hsc : spec wf c = .shutdown := by rw [spec_unfold wf h c, hrule]; rfl
  rw [confluent_without_failure_partial wf h hr hs ops hk hq c hc, hsc]

/-- E9. The aggregating rule needs a replicated input to fire on "all replicated inputs": an
aggregating component without replicated producers whose producers all end finished is not shut
down by the rules (it gets the outcome of its own executions). -/
theorem aggregating_without_replicated_inputs (wf : Wf) (h : wf.WF) (c : Nat)
    (hnr : ∀ p ∈ (wf.cdef c).preds, (wf.cdef p).isRepl = false)
    (hfin : ∀ p ∈ (wf.cdef c).preds, spec wf p = .finished) : spec wf c = own wf c := by
  have hrule : ruleShutdown wf (spec wf) c = false := by
    have h1 : (wf.cdef c).preds.any (fun p => spec wf p == .failed) = false := by
      rw [List.any_eq_false]; intro p hp; simp [hfin p hp]
    have h2 : (wf.cdef c).preds.any (fun p => spec wf p == .shutdown) = false := by
      rw [List.any_eq_false]; intro p hp; simp [hfin p hp]
    have h3 : ((wf.cdef c).preds.filter fun p => (wf.cdef p).isRepl) = [] := by
      rw [List.filter_eq_nil_iff]; intro p hp; simp [hnr p hp]
    have h4 : ((wf.cdef c).preds.filter fun p => !(wf.cdef p).isRepl).any
        (fun p => spec wf p == .shutdown) = false := by
      rw [List.any_eq_false]; intro p hp; simp [hfin p (List.mem_filter.1 hp).1]
    simp only [ruleShutdown, h1, h2, h3, h4, Bool.false_eq_true, if_false, List.isEmpty_nil,
      Bool.not_true, Bool.false_and]
    split <;> rfl
  rw [spec_unfold wf h c, hrule]; rfl

/-! ### non-vacuity of part E: two stages

Stage 0: component 0 ends `KnownIssue` (on its `shutdownOn` list), component 1 succeeds.
Stage 1: component 2 consumes 0, component 3 is independent (and is launched while stage 0 is
still current).  In `opsMS` the notification of 0 is the LAST one of stage 0, so its consumer 2
is inspected by the scheduler only after `initialise(stage 1)`. -/

def cdefMS : Nat → CompDef
  | 0 => { shutdownOn := [.knownIssue], script := [.knownIssue] }
  | 1 => {}
  | 2 => { stage := 1, preds := [0] }
  | 3 => { stage := 1 }
  | _ => {}

def wfMS : Wf := { n := 4, lastStage := 1, order := [0, 1, 2, 3], cdef := cdefMS }

def opsMS : List Op :=
  [.sched, .sched, .exit 1, .pm 1, .fin 1, .exit 0, .pm 0, .fin 0, .next, .sched, .sched, .fin 2,
   .exit 3, .pm 3, .fin 3]

theorem wfMS_wf : wfMS.WF := by
  refine ⟨?_, ?_, ?_⟩
  · intro c
    rcases c with _ | _ | _ | _ | c <;> simp [wfMS, cdefMS]
  · intro c hc; simp [wfMS] at hc ⊢; omega
  · intro c hc; simp [wfMS] at hc ⊢; omega

theorem wfMS_repeatSafe : RepeatSafe wfMS := by
  intro c _ hrep
  rcases c with _ | _ | _ | _ | c <;> simp [wfMS, cdefMS] at hrep

example : (List.range 4).map (spec wfMS) = [.shutdown, .finished, .shutdown, .finished] := by
  decide +kernel
/-- the transition is not enabled while the stage has active components … -/
example : (run wfMS [.sched, .next]).cur = 0 := by decide +kernel
/-- … and is taken once the stage is complete; stage 0 is reported `ok` -/
example : (run wfMS opsMS).cur = 1 ∧ (runR wfMS opsMS).2 = [(0, .ok)] := by decide +kernel
example : quiescent wfMS (run wfMS opsMS) = true ∧ canAdvance wfMS (run wfMS opsMS) = false ∧
    verdict wfMS (run wfMS opsMS) = .ok := by decide +kernel
/-- the shut-down producer keeps its state across the transition and its later-stage consumer is
shut down without running; the launches are 0, 1 and the future-stage component 3 -/
example : (List.range 4).map (fun c => ((run wfMS opsMS).comp c).ctrl) =
    [some .shutdown, some .finished, some .shutdown, some .finished] ∧
    ((run wfMS opsMS).comp 2).ran = false ∧ (run wfMS opsMS).log.map (·.1) = [0, 1, 3] := by
  decide +kernel
/-- E8 instantiates -/
example : ((run wfMS opsMS).comp 2).ctrl = some .shutdown :=
  consumer_of_shutdown_producer_partial wfMS wfMS_wf wfMS_repeatSafe
    (by intro c hc
        have : c < 4 := hc
        rcases c with _ | _ | _ | _ | c
        all_goals first | omega | decide +kernel)
    opsMS (by unfold NoKill; decide) (by decide +kernel) 2 0 (by decide) (by decide) rfl
    (by decide +kernel)

/-- failing variant with `continue-on-error` on stage 0: component 1 ends `UnknownIssue` -/
def wfMSbad : Wf :=
  { wfMS with
    contOnErr := fun k => k == 0
    cdef := fun c => if c = 1 then { script := [.unknownIssue] } else cdefMS c }

def opsMSbad : List Op :=
  [.sched, .sched, .exit 1, .pm 1, .fin 1, .exit 0, .fin 0, .next, .sched, .sched, .fin 2, .exit 3,
   .pm 3, .fin 3]

theorem wfMSbad_wf : wfMSbad.WF := by
  refine ⟨?_, ?_, ?_⟩
  · intro c
    rcases c with _ | _ | _ | _ | c <;> simp [wfMSbad, wfMS, cdefMS]
  · intro c hc; simp [wfMSbad, wfMS] at hc ⊢; omega
  · intro c hc; simp [wfMSbad, wfMS] at hc ⊢; omega

theorem wfMSbad_repeatSafe : RepeatSafe wfMSbad := by
  intro c _ hrep
  rcases c with _ | _ | _ | _ | c <;> simp [wfMSbad, wfMS, cdefMS] at hrep

example : (List.range 4).map (spec wfMSbad) = [.shutdown, .failed, .shutdown, .finished] := by
  decide +kernel
/-- stage 0 is reported as failed, the loop goes on, stage 1 ends normally -/
example : (run wfMSbad opsMSbad).cur = 1 ∧ (runR wfMSbad opsMSbad).2 = [(0, .jobFailure)] ∧
    verdict wfMSbad (run wfMSbad opsMSbad) = .ok ∧
    (List.range 4).map (fun c => ((run wfMSbad opsMSbad).comp c).ctrl) =
      [some .shutdown, some .failed, some .shutdown, some .finished] := by decide +kernel
/-- without `continue-on-error` the loop stops at stage 0 -/
example : (run { wfMSbad with contOnErr := fun _ => false } opsMSbad).cur = 0 ∧
    verdict { wfMSbad with contOnErr := fun _ => false }
      (run { wfMSbad with contOnErr := fun _ => false } opsMSbad) = .jobFailure := by decide +kernel
/-- E7 instantiates -/
example : ((wfMSbad.cdef 1).stage, Verdict.jobFailure) ∈ (runR wfMSbad opsMSbad).2 := by
  have h := (failure_is_reported_multistage_partial wfMSbad wfMSbad_wf wfMSbad_repeatSafe
    (by intro c hc
        have : c < 4 := hc
        rcases c with _ | _ | _ | _ | c
        all_goals first | omega | decide)
    ⟨1, by decide, by decide +kernel⟩ opsMSbad (by unfold NoKill; decide) (by decide +kernel)
    (by decide +kernel)).2 1 (by decide) (by decide +kernel) (by decide +kernel)
  rcases h with ⟨h1, _⟩ | h
  · exact absurd h1 (by decide +kernel)
  · exact h

/-- E9 on an aggregator of an aggregator -/
def wfAgg2 : Wf :=
  { n := 4, order := [0, 1, 2, 3],
    cdef := fun c => match c with
      | 0 => { isRepl := true }
      | 1 => { isRepl := true }
      | 2 => { preds := [0, 1], isAgg := true }
      | 3 => { preds := [2], isAgg := true }
      | _ => {} }

example : spec wfAgg2 3 = .finished := by decide +kernel


/-! ## D. non-vacuity: a concrete workflow and history -/

/-- source 0; replicas 1 (ends `KnownIssue`, which it declares in `shutdownOn`) and 2;
aggregator 3 of the replicas; plain consumer 4 of replica 1 -/
def cdefEx : Nat → CompDef
  | 0 => {}
  | 1 => { preds := [0], isRepl := true, shutdownOn := [.knownIssue], script := [.knownIssue] }
  | 2 => { preds := [0], isRepl := true }
  | 3 => { preds := [1, 2], isAgg := true }
  | 4 => { preds := [1] }
  | _ => {}

def wfEx : Wf := { n := 5, cdef := cdefEx, order := [3, 4, 1, 0, 2] }

def opsEx : List Op :=
  [.sched, .sched, .exit 0, .pm 0, .fin 0, .sched, .exit 1, .pm 1, .fin 1, .exit 2, .pm 2, .fin 2,
   .sched, .exit 3, .pm 3, .fin 3, .fin 4]

theorem wfEx_wf : wfEx.WF := by
  refine ⟨?_, ?_, ?_⟩
  · intro c
    rcases c with _ | _ | _ | _ | _ | c <;> simp [wfEx, cdefEx]
  · intro c hc; simp [wfEx] at hc ⊢; omega
  · intro c hc; simp [wfEx] at hc ⊢; omega

theorem wfEx_repeatSafe : RepeatSafe wfEx := by
  intro c _ hrep
  rcases c with _ | _ | _ | _ | _ | c <;> simp [wfEx, cdefEx] at hrep

example : wfEx.WF := wfEx_wf
example : RepeatSafe wfEx := wfEx_repeatSafe
example : NoKill opsEx := by unfold NoKill; decide
example : (List.range 5).map (spec wfEx) = [.finished, .shutdown, .finished, .finished, .shutdown] := by
  decide +kernel
example : ∀ c, c < wfEx.n → spec wfEx c ≠ .failed := by
  intro c hc
  have : c < 5 := hc
  rcases c with _ | _ | _ | _ | _ | c
  all_goals first | omega | decide +kernel
example : quiescent wfEx (run wfEx opsEx) = true := by decide +kernel
example : (List.range 5).map (fun c => ((run wfEx opsEx).comp c).ctrl) =
    [some .finished, some .shutdown, some .finished, some .finished, some .shutdown] := by decide +kernel
example : ((run wfEx opsEx).comp 4).ctrl = some .shutdown := by decide +kernel
example : (List.range 5).all (fun c => (run wfEx opsEx).done c) = true := by decide +kernel
example : verdict wfEx (run wfEx opsEx) = .ok := by decide +kernel
/-- the general theorems instantiate on the example -/
example : ∀ c, c < 5 → ((run wfEx opsEx).comp c).ctrl = some (spec wfEx c) :=
  confluent_without_failure_partial wfEx wfEx_wf wfEx_repeatSafe
    (by intro c hc
        have : c < 5 := hc
        rcases c with _ | _ | _ | _ | _ | c
        all_goals first | omega | decide +kernel)
    opsEx (by unfold NoKill; decide) (by decide +kernel)

/-- a failing variant: replica 2 ends `UnknownIssue`; C4 applies -/
def wfBad : Wf := { wfEx with cdef := fun c => if c = 2 then { preds := [0], isRepl := true, script := [.unknownIssue] } else cdefEx c }

example : spec wfBad 2 = .failed := by decide +kernel
example : (List.range 5).map (spec wfBad) = [.finished, .shutdown, .failed, .shutdown, .shutdown] := by
  decide +kernel

def opsBad : List Op :=
  [.sched, .sched, .exit 0, .pm 0, .fin 0, .sched, .exit 2, .pm 2, .fin 2, .exit 1, .fin 3, .fin 4, .fin 1]

theorem wfBad_wf : wfBad.WF := by
  refine ⟨?_, ?_, ?_⟩
  · intro c
    rcases c with _ | _ | _ | _ | _ | c <;> simp [wfBad, wfEx, cdefEx]
  · intro c hc; simp [wfBad, wfEx] at hc ⊢; omega
  · intro c hc; simp [wfBad, wfEx] at hc ⊢; omega

theorem wfBad_repeatSafe : RepeatSafe wfBad := by
  intro c _ hrep
  rcases c with _ | _ | _ | _ | _ | c <;> simp [wfBad, wfEx, cdefEx] at hrep

example : quiescent wfBad (run wfBad opsBad) = true := by decide +kernel
example : (List.range 5).map (fun c => ((run wfBad opsBad).comp c).ctrl) =
    [some .finished, some .shutdown, some .failed, some .shutdown, some .shutdown] := by decide +kernel
example : verdict wfBad (run wfBad opsBad) = .jobFailure := by decide +kernel
/-- C4 instantiates on the failing variant -/
example : (∃ c, c < 5 ∧ ((run wfBad opsBad).comp c).ctrl = some .failed) ∧
    verdict wfBad (run wfBad opsBad) = .jobFailure :=
  failure_is_reported_partial wfBad wfBad_wf wfBad_repeatSafe ⟨2, by decide, by decide +kernel⟩
    (by intro c hc
        have : c < 5 := hc
        rcases c with _ | _ | _ | _ | _ | c
        all_goals first | omega | rfl)
    rfl opsBad (by unfold NoKill; decide) (by decide +kernel)


/-! ### `RepeatSafe` cannot be dropped: a repeating observer of a producer that shuts down
ends FINISHED or SHUTDOWN depending on the schedule (no kill, no failure involved) -/

def wfRep : Wf :=
  { n := 2, order := [0, 1],
    cdef := fun c => match c with
      | 0 => { shutdownOn := [.knownIssue], script := [.knownIssue] }
      | 1 => { preds := [0], isRepeat := true }
      | _ => {} }

/-- the observer is launched while the producer still runs -/
def opsRepA : List Op := [.sched, .sched, .exit 0, .pm 0, .fin 0, .exit 1, .pm 1, .fin 1]
/-- the producer ends before the scheduler looks at the observer again -/
def opsRepB : List Op := [.sched, .exit 0, .pm 0, .fin 0, .sched, .fin 1]

example : (List.range 2).map (spec wfRep) = [.shutdown, .shutdown] := by decide +kernel
example : quiescent wfRep (run wfRep opsRepA) = true ∧
    (List.range 2).map (fun c => ((run wfRep opsRepA).comp c).ctrl) = [some .shutdown, some .finished] := by
  decide +kernel
example : quiescent wfRep (run wfRep opsRepB) = true ∧
    (List.range 2).map (fun c => ((run wfRep opsRepB).comp c).ctrl) = [some .shutdown, some .shutdown] := by
  decide +kernel


/-! ## G. Repeating components end only after their producers: nobody is left waiting

The engine of a repeating component relaunches its task until `ComponentState` tells it
`notify_all_producers_finished` (or until `kill()`); `Op.exit c` is not enabled before (`canExit`).
`ComponentState.stageIn` subscribes to the producers that are alive at stage-in time
(`CompS.watch`); the engine is told when all of THEM have ended (`notified`).  Part A speaks about states
without a live task; the theorems below show that a live repeating task whose producers are all final
can always exit, so "no live task" and "no enabled task exit" coincide at quiescence. -/

/-- G1. A launched repeating component that was not asked to finish has been told that its producers
finished as soon as all of them are in a final state - whenever it was staged in: before, while or
after they ended (also when ALL of them had ended before: the subscription list is then empty). -/
theorem repeating_engine_is_told (wf : Wf) (ops : List Op) (c : Nat)
    (hrep : (wf.cdef c).isRepeat = true) (hr : ((run wf ops).comp c).ran = true)
    (hfc : ((run wf ops).comp c).finishCalled = false)
    (hp : ∀ p ∈ (wf.cdef c).preds, ((run wf ops).comp p).ctrl.isSome = true) :
    notified (run wf ops) c = true :=
  notified_of_final (run_winv wf ops) c hr hrep hfc hp

/-- G2. … and it is not told early: told ⇒ every producer is final. -/
theorem repeating_engine_is_not_told_early (wf : Wf) (ops : List Op) (c : Nat)
    (hn : notified (run wf ops) c = true) :
    ∀ p ∈ (wf.cdef c).preds, ((run wf ops).comp p).ctrl.isSome = true :=
  final_of_notified (run_winv wf ops) c hn

/-- G3. A live task whose producers are all final can exit (repeating or not, asked to finish or not). -/
theorem live_task_with_final_producers_can_exit (wf : Wf) (ops : List Op) (c : Nat)
    (hr : ((run wf ops).comp c).ran = true) (hex : ((run wf ops).comp c).exit = none)
    (hp : ∀ p ∈ (wf.cdef c).preds, ((run wf ops).comp p).ctrl.isSome = true) :
    canExit wf (run wf ops) c = true :=
  canExit_of_final (run_inv wf ops) (run_winv wf ops) c hr hex hp

/-- G4. A task exit that is not enabled does nothing. -/
theorem disabled_exit_is_noop (wf : Wf) (s : St) (c : Nat) (h : canExit wf s c = false) :
    step wf s (.exit c) = s := by
  simp [step, taskExit, h]

/-- G5. Strengthening of A: when no task CAN exit (live repeating engines that wait for their
producers allowed), nothing is queued and the scheduler has nothing to do, every component is
recorded in `comp_done` in a final state: no ordering leaves an observer waiting for ever. -/
theorem quiescentR_all_final (wf : Wf) (h : wf.WF) (ops : List Op)
    (hq : quiescentR wf (run wf ops) = true) :
    ∀ c, c < wf.n → (run wf ops).done c = true ∧ ((run wf ops).comp c).ctrl.isSome = true :=
  quiescentR_all_final' h (run_inv wf ops) (run_winv wf ops) hq

/-- G6. So the two notions of quiescence coincide on reachable states. -/
theorem quiescentR_iff_quiescent (wf : Wf) (h : wf.WF) (ops : List Op) :
    quiescentR wf (run wf ops) = true ↔ quiescent wf (run wf ops) = true := by
  constructor
  · intro hq
    have hall := quiescentR_all_final wf h ops hq
    simp only [quiescentR, comps, Bool.and_eq_true, List.all_eq_true, List.mem_range,
      Bool.not_eq_true'] at hq
    simp only [quiescent, comps, Bool.and_eq_true, List.all_eq_true, List.mem_range, Bool.not_eq_true',
      Bool.and_eq_false_iff]
    refine ⟨⟨hq.1.1, fun c hc => ?_⟩, hq.2⟩
    have := ((run_inv wf ops).ci c).k10 (hall c hc).2
    cases hx : ((run wf ops).comp c).exit with
    | none => simp [hx] at this
    | some r => right; rfl
  · intro hq
    simp only [quiescent, comps, Bool.and_eq_true, List.all_eq_true, List.mem_range,
      Bool.not_eq_true'] at hq
    simp only [quiescentR, comps, Bool.and_eq_true, List.all_eq_true, List.mem_range, Bool.not_eq_true']
    refine ⟨⟨hq.1.1, fun c hc => ?_⟩, hq.2⟩
    have := hq.1.2 c hc
    simp only [canExit]
    rw [this]; rfl

/-! ### non-vacuity of part G

Stage 0: `slow` (0).  Stage 1: `subject` (1, no inputs: launched while stage 0 is current) and a repeating
`observer` (2) of both.  In `opsObsLate` both producers have ended before the observer is staged in: its
subscription list is empty and its engine is told at once.  In `opsObsEarly` the subject is still running
when the observer is staged in (after `slow` ended): it subscribes to the subject only. -/

def wfObs : Wf :=
  { n := 3, lastStage := 1, order := [2, 0, 1],
    cdef := fun c => match c with
      | 0 => {}
      | 1 => { stage := 1 }
      | 2 => { stage := 1, preds := [0, 1], isRepeat := true }
      | _ => {} }

theorem wfObs_wf : wfObs.WF := by
  refine ⟨?_, ?_, ?_⟩
  · intro c
    rcases c with _ | _ | _ | c <;> simp [wfObs]
  · intro c hc; simp [wfObs] at hc ⊢; omega
  · intro c hc; simp [wfObs] at hc ⊢; omega

def opsObsLate : List Op :=
  [.sched, .sched, .exit 1, .pm 1, .fin 1, .exit 0, .pm 0, .fin 0, .next, .sched]

def opsObsEarly : List Op :=
  [.sched, .sched, .exit 0, .pm 0, .fin 0, .next, .sched]

example : ((run wfObs opsObsLate).comp 2).ran = true ∧ ((run wfObs opsObsLate).comp 2).watch = some [] ∧
    notified (run wfObs opsObsLate) 2 = true ∧ canExit wfObs (run wfObs opsObsLate) 2 = true := by
  decide +kernel

example : ((run wfObs opsObsEarly).comp 2).ran = true ∧ ((run wfObs opsObsEarly).comp 2).watch = some [1] ∧
    notified (run wfObs opsObsEarly) 2 = false ∧ canExit wfObs (run wfObs opsObsEarly) 2 = false ∧
    quiescentR wfObs (run wfObs opsObsEarly) = false := by decide +kernel

/-- the exit of the observer is a no-op while the subject runs … -/
example : ((run wfObs (opsObsEarly ++ [.exit 2])).comp 2).exit = none := by decide +kernel
/-- … and enabled once the subject is final (not only once the controller has recorded it) -/
example : canExit wfObs (run wfObs (opsObsEarly ++ [.exit 1, .pm 1])) 2 = true ∧
    (run wfObs (opsObsEarly ++ [.exit 1, .pm 1])).done 1 = false := by decide +kernel

example : quiescentR wfObs (run wfObs (opsObsLate ++ [.exit 2, .pm 2, .fin 2])) = true ∧
    (List.range 3).map (fun c => ((run wfObs (opsObsLate ++ [.exit 2, .pm 2, .fin 2])).comp c).ctrl) =
      [some .finished, some .finished, some .finished] := by decide +kernel

/-- G1 and G5 instantiate -/
example : notified (run wfObs opsObsLate) 2 = true :=
  repeating_engine_is_told wfObs opsObsLate 2 rfl (by decide +kernel) (by decide +kernel)
    (by intro p hp; simp [wfObs] at hp; rcases hp with rfl | rfl <;> decide +kernel)

example : ∀ c, c < 3 → (run wfObs (opsObsLate ++ [.exit 2, .pm 2, .fin 2])).done c = true ∧
    ((run wfObs (opsObsLate ++ [.exit 2, .pm 2, .fin 2])).comp c).ctrl.isSome = true :=
  quiescentR_all_final wfObs wfObs_wf _ (by decide +kernel)

/-! ## H. The external stage-completion hook

`hrun` (`Model/CtrlSplit.lean`) = the operations of `run` plus `HOp.hook k`: the package's `IsStageComplete`
hook answered `True` for stage k and the closure of `_observe_completionCheck` ran (fake-finish what is not
staged in, `_stopComponents` the rest: `stopStage`).  Parts A, B, E2 and G5 hold for every such history, with
any number of hook firings.  Before the repair `fixes/C02-completion-hook-unstaged.diff` the closure called
`_stopComponents` only and A was FALSE: `Witness.C02.old_hook_strands_unstaged_component`. -/

theorem hook_quiescentR_all_final (wf : Wf) (h : wf.WF) (ops : List HOp)
    (hq : quiescentR wf (hrun wf ops) = true) :
    ∀ c, c < wf.n → (hrun wf ops).done c = true ∧ ((hrun wf ops).comp c).ctrl.isSome = true :=
  quiescentR_all_final' h (hrun_inv wf ops).1 (hrun_inv wf ops).2 hq

/-- … final states stay final across hook firings … -/
theorem hook_final_is_permanent (wf : Wf) (ops ops' : List HOp) (c : Nat) (f : Fin3) :
    ((hrun wf ops).comp c).ctrl = some f → ((hrun wf (ops ++ ops')).comp c).ctrl = some f := by
  intro hc
  have := (hrun_from_inv (wf := wf) ops' (hrun wf ops) (hrun_inv wf ops).1 (hrun_inv wf ops).2).2.2.ctrl c f hc
  simpa [hrun, List.foldl_append] using this

/-- … and are the component's own outcome or shut-down (B) -/
theorem hook_final_is_own_or_shutdown (wf : Wf) (ops : List HOp) (c : Nat) (f : Fin3) :
    ((hrun wf ops).comp c).ctrl = some f → f = .shutdown ∨ f = own wf c :=
  ((hrun_inv wf ops).1.ci c).b1 f

/-- A for histories with hook firings -/
theorem hook_quiescent_all_final (wf : Wf) (h : wf.WF) (ops : List HOp)
    (hq : quiescent wf (hrun wf ops) = true) :
    ∀ c, c < wf.n → (hrun wf ops).done c = true ∧ ((hrun wf ops).comp c).ctrl.isSome = true := by
  refine hook_quiescentR_all_final wf h ops ?_
  simp only [quiescent, comps, Bool.and_eq_true, List.all_eq_true, List.mem_range,
    Bool.not_eq_true'] at hq
  simp only [quiescentR, comps, Bool.and_eq_true, List.all_eq_true, List.mem_range, Bool.not_eq_true']
  refine ⟨⟨hq.1.1, fun c hc => ?_⟩, hq.2⟩
  have := hq.1.2 c hc
  simp only [canExit]
  rw [this]; rfl

/-- the split system of C01 runs the same hook: `hrun` is `srun` on the embedded history -/
theorem hrun_eq_srun (wf : Wf) (ops : List HOp) : (srun wf (ops.map HOp.toS)).base = hrun wf ops := by
  unfold srun hrun
  have : ∀ (s : SSt), ((ops.map HOp.toS).foldl (sstep wf) s).base = ops.foldl (hstep wf) s.base := by
    induction ops with
    | nil => intro s; rfl
    | cons o os ih =>
      intro s
      simp only [List.map_cons, List.foldl_cons]
      rw [ih]
      cases o <;> rfl
  exact this sinit

/-- histories without hook firings are the histories of `run` -/
theorem hrun_extends_run (wf : Wf) (ops : List Op) : hrun wf (ops.map HOp.op) = run wf ops := by
  unfold hrun run
  generalize init = s
  induction ops generalizing s with
  | nil => rfl
  | cons o os ih => simp only [List.map_cons, List.foldl_cons]; exact ih _

/-- non-vacuity: the hook fires while component 1 of `C02W.wfH`-like chain `0 → 1` waits for 0 -/
example : quiescentR { n := 2, cdef := fun i => if i = 1 then { preds := [0] } else {}, order := [0, 1] }
    (hrun { n := 2, cdef := fun i => if i = 1 then { preds := [0] } else {}, order := [0, 1] }
      [.op .sched, .hook 0, .op (.exit 0), .op (.fin 0), .op (.fin 1), .op .sched]) = true := by decide +kernel

/-! ## F. The exit reason of an execution is the one the engine reports (`St4sd/Model/CtrlEngine.lean`)

Parts A–E take the exit reason of every task execution as given (`CompDef.script`).  The reason reaches
the controller through `Engine.exitReason()`; it is computed from `self.process` and
`self._exitReason`, which survive from one execution to the next. -/

/-- Whatever state the previous executions left the engine in (stale `process`, stale `_exitReason`),
the reason reported after an execution is the reason of THAT execution: the Task's own exit reason
when the launch produced a Task, `SubmissionFailed` when the task generator raised a launch error,
`UnknownIssue` when it raised anything else. -/
theorem engine_reports_reason_of_this_execution (e : EngS) (l : Launch) :
    (e.execute l).exit = some l.reason := by
  cases l <;> rfl

/-- A fault of the engine's own bookkeeping AFTER the task exited (`FinalisePerformanceInfo` raises,
so `HandleTaskObservableException` runs instead of `HandleTaskExit` and asks for `UnknownIssue`) does
not change what the engine reports: the reason of the task that ran - in particular a task that exited
with `Success` is reported as `Success`, whatever state earlier executions left the engine in. -/
theorem engine_fault_after_exit_keeps_task_reason (e : EngS) (r : Reason) :
    (e.execute (.taskThenFault r)).exit = some r ∧
    (e.execute (.taskThenFault r)).exit = (e.execute (.task r)).exit := ⟨rfl, rfl⟩

/-- That is the work of `_setExitReason`'s preference for `self.process.exitReason`: if the caller's
reason were taken as it is ("the caller decides"), a successful task followed by such a fault would be
reported as `UnknownIssue` (a component whose every task succeeded would end failed). -/
theorem caller_decides_breaks_reported_reason :
    ∃ (e : EngS) (l : Launch), l.reason = .success ∧ (e.executeCallerDecides l).exit = some .unknownIssue :=
  ⟨{}, .taskThenFault .success, rfl, rfl⟩

/-- without a post-exit fault the two variants agree (why ordinary runs cannot tell them apart) -/
theorem caller_decides_agrees_without_fault (e : EngS) (l : Launch) (h : l.faultAfterExit = false) :
    (e.executeCallerDecides l).exit = (e.execute l).exit := by
  cases l <;> first | rfl | (simp [Launch.faultAfterExit] at h)

/-- So the sequence of reasons a component's engine reports over its executions (with `restart`
between them) is exactly the sequence of the executions' reasons: the controller model's `script`. -/
theorem engine_reported_eq_script (e : EngS) (ls : List Launch) :
    e.reported ls = ls.map (fun l => some l.reason) := by
  induction ls generalizing e with
  | nil => rfl
  | cons l ls ih => simp only [EngS.reported, List.map_cons, engine_reports_reason_of_this_execution, ih]

/-- a launch that fails after a restart does not inherit the reason of the execution before it
(`ResourceExhausted`, then three failed submissions, then success) -/
example : ({} : EngS).reported [.task .resourceExhausted, .submitError, .submitError, .submitError, .task .success] =
    [some .resourceExhausted, some .submissionFailed, some .submissionFailed, some .submissionFailed,
     some .success] := by decide

/-- a post-exit fault in the first and in the last execution: the reasons reported are the tasks' -/
example : ({} : EngS).reported [.taskThenFault .resourceExhausted, .submitError, .taskThenFault .success] =
    [some .resourceExhausted, some .submissionFailed, some .success] := by decide

/-- with those reasons the restart policy spends one restart and three re-submissions: `finished` -/
example : ownFrom { n := 1, cdef := fun _ => {}, order := [0] } { restartOn := [.resourceExhausted] }
    [.resourceExhausted, .submissionFailed, .submissionFailed, .submissionFailed, .success] 0 0 = .finished := by
  decide


/-! ## I. The verdict of `run()` when the stage grows while it runs (`St4sd/Model/CtrlGrow.lean`)

A DoWhile document injects components into the running stage.  The failure scan of `run()` must look at
the components the stage has when its loop ENDS (the code re-reads them), not at those it had when
`run()` started. -/

/-- `verdict` is `verdictOn` of the components of the current stage -/
theorem verdict_eq_verdictOn (wf : Wf) (s : St) : verdict wf s = verdictOn wf s (stageComps wf s.cur) := rfl

/-- whatever list is inspected: a failed component IN the list makes `run()` raise
`UnexpectedJobFailureError` -/
theorem verdictOn_reports_failed (wf : Wf) (s : St) (mine : List Nat) (c : Nat) (hc : c ∈ mine)
    (hf : (s.comp c).ctrl = some .failed) : verdictOn wf s mine = .jobFailure := by
  unfold verdictOn
  have : mine.any (fun c => (s.comp c).ctrl == some .failed) = true :=
    List.any_eq_true.mpr ⟨c, hc, by simp [hf]⟩
  simp [this]

/-- and `UnexpectedJobFailureError` is raised only for a failed component of the list -/
theorem verdictOn_jobFailure_iff (wf : Wf) (s : St) (mine : List Nat) :
    verdictOn wf s mine = .jobFailure ↔ ∃ c ∈ mine, (s.comp c).ctrl = some .failed := by
  unfold verdictOn
  constructor
  · intro h
    by_cases ha : mine.any (fun c => (s.comp c).ctrl == some .failed) = true
    · obtain ⟨c, hc, hf⟩ := List.any_eq_true.mp ha
      exact ⟨c, hc, by simpa using hf⟩
    · exfalso
      have ha' : mine.any (fun c => (s.comp c).ctrl == some .failed) = false := by simpa using ha
      rw [ha'] at h
      simp only [Bool.false_eq_true, if_false] at h
      split at h <;> exact Verdict.noConfusion h
  · rintro ⟨c, hc, hf⟩
    have : mine.any (fun c => (s.comp c).ctrl == some .failed) = true :=
      List.any_eq_true.mpr ⟨c, hc, by simp [hf]⟩
    simp [this]

/-- the components read at the top of `run()` are among those read at its end -/
theorem snapshot_subset_of_reread (wf wf' : Wf) (g : Grows wf wf') (k : Nat) :
    ∀ c ∈ stageComps wf k, c ∈ stageComps wf' k := by
  intro c hc
  simp only [stageComps, comps, List.mem_filter, List.mem_range] at hc ⊢
  exact ⟨Nat.lt_of_lt_of_le hc.1 g.n_le, by rw [g.same c hc.1]; exact hc.2⟩

/-- The re-read list reports EVERY failed component of the stage, also one that a later iteration of
a loop created: for the grown workflow `wf'`, a failed component of the current stage - whenever it
came to exist - makes the verdict `UnexpectedJobFailureError`. -/
theorem reread_reports_every_failed_component (wf' : Wf) (s : St) (c : Nat) (hc : c < wf'.n)
    (hs : (wf'.cdef c).stage = s.cur) (hf : (s.comp c).ctrl = some .failed) :
    verdict wf' s = .jobFailure := by
  rw [verdict_eq_verdictOn]
  refine verdictOn_reports_failed wf' s _ c ?_ hf
  simp only [stageComps, comps, List.mem_filter, List.mem_range]
  exact ⟨hc, by simp [hs]⟩

/-- a failure that the snapshot reports is reported by the re-read list as well (nothing is lost by
re-reading) -/
theorem snapshot_failure_is_reread_failure (wf wf' : Wf) (g : Grows wf wf') (s : St)
    (h : verdictOn wf' s (stageComps wf s.cur) = .jobFailure) :
    verdictOn wf' s (stageComps wf' s.cur) = .jobFailure := by
  obtain ⟨c, hc, hf⟩ := (verdictOn_jobFailure_iff wf' s _).mp h
  exact verdictOn_reports_failed wf' s _ c (snapshot_subset_of_reread wf wf' g s.cur c hc) hf

/-- one looped component per iteration, no consumers: iteration 0 is component 0 -/
def wfLoop0 : Wf := { n := 1, cdef := fun _ => {}, order := [0] }
/-- ... after the second iteration (component 1) was instantiated -/
def wfLoop1 : Wf := { n := 2, cdef := fun _ => {}, order := [0, 1] }
/-- iteration 0 finished, iteration 1 failed, both recorded -/
def stLoop : St := { comp := fun c => if c = 0 then { ctrl := some .finished } else { ctrl := some .failed },
                     done := fun _ => true }

theorem wfLoop_grows : Grows wfLoop0 wfLoop1 := ⟨by decide, fun _ _ => rfl⟩

/-- The snapshot is NOT enough: iteration 1 of a loop ends failed, the stage is complete, and the
verdict computed on the components that existed when `run()` started is `ok` - the stage containing
the failed component would not be reported as failed - while the verdict on the re-read list is
`UnexpectedJobFailureError`. -/
theorem snapshot_verdict_misses_late_component :
    Grows wfLoop0 wfLoop1 ∧ stageDone wfLoop1 stLoop = true ∧
    (∃ c, c < wfLoop1.n ∧ (wfLoop1.cdef c).stage = stLoop.cur ∧ (stLoop.comp c).ctrl = some .failed) ∧
    verdictOn wfLoop1 stLoop (stageComps wfLoop0 stLoop.cur) = .ok ∧
    verdict wfLoop1 stLoop = .jobFailure :=
  ⟨wfLoop_grows, by decide, ⟨1, by decide, by decide, by decide⟩, by decide, by decide⟩

end St4sd.C02
