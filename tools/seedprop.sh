#!/bin/bash
# usage: tools/seedprop.sh PROP [MARKER]   run tools/seedtest.py for every seeded id of one property, sequentially;
# ids whose result.json is newer than MARKER (a file) are skipped.  Run several properties in parallel with
#   printf "%s\n" C01 C02 ... | xargs -P 7 -n 1 tools/seedprop.sh
cd /verif
p=$1
marker=${2:-${SEED_MARKER:-}}
for d in seeded/$p-*; do
  [ -f $d/patch.diff ] || continue
  [ -n "$marker" ] && [ $d/result.json -nt "$marker" ] && continue
  tools/seedtest.py $d 2>&1 | tail -1 > $d/result.json.tmp && mv $d/result.json.tmp $d/result.json
done
