#!/usr/bin/env python3
"""Print the as-built inventory (markdown) from the Lean sources and the last evidence files."""
import json, os, re, sys
V = os.path.dirname(os.path.dirname(os.path.abspath(__file__)))
sys.path.insert(0, V)
from harness import common
rows = []
tot_model = tot_proof = 0
for i in range(1, 21):
    p = "C%02d" % i
    files = common.lean_files_for(p)
    model = [f for f in files if "/Model/" in f]
    proofs = [f for f in files if "/Props/" in f or "/Lemmas/" in f or "/Witness/" in f]
    lm = sum(len(open(f).read().splitlines()) for f in model)
    lp = sum(len(open(f).read().splitlines()) for f in proofs)
    tot_model += lm; tot_proof += lp
    ev = json.load(open(os.path.join(V, "evidence", p + ".json")))
    th = [t.split(".")[-1] if not t.startswith("St4sd.%s.Witness" % p) else "W:" + t.split(".")[-1] for t in ev["coverage"].get("theorems", [])]
    props = [t for t in ev["coverage"].get("theorems", []) if ".Witness" not in t and "Witness." not in t]
    wit = [t for t in ev["coverage"].get("theorems", []) if t not in props]
    short = lambda t: t.split(".")[-1]
    rows.append("| %s | %s | %d / %d | %d (+%d witness) | %s |" % (
        p, ", ".join(os.path.basename(f)[:-5] for f in model), lm, lp, len(props), len(wit),
        ", ".join("`%s`" % short(t) for t in props)))
print("| prop | model modules | lines model / proofs | theorems | property theorems (`_partial` = proved under an explicit excluding hypothesis) |")
print("|---|---|---|---|---|")
print("\n".join(rows))
print("\nTotal: %d lines of model, %d lines of lemmas/theorems/witnesses." % (tot_model, tot_proof))
