#!/usr/bin/env python3
"""Validate MANIFEST.json and every evidence/*.json against the schemas in /root/.vp."""
import glob, json, os, sys
import jsonschema
V = os.path.dirname(os.path.dirname(os.path.abspath(__file__)))
ok = True
m = json.load(open(os.path.join(V, "MANIFEST.json")))
try:
    jsonschema.validate(m, json.load(open("/root/.vp/MANIFEST.schema.json")))
    print("MANIFEST ok")
except Exception as e:
    ok = False
    print("MANIFEST INVALID", e)
sch = json.load(open("/root/.vp/EVIDENCE.schema.json"))
for c in m["checks"]:
    f = os.path.join(V, c["evidence_file"])
    if not os.path.exists(f):
        print("missing", f); ok = False; continue
    ev = json.load(open(f))
    try:
        jsonschema.validate(ev, sch)
        cov = ev["coverage"]
        print("%s ok level=%s obligations=%s discharged=%s eval=%s nontrivial=%s viol=%s wall=%s" % (
            c["property_id"], ev["level"], cov.get("obligations"), cov.get("discharged"), cov.get("evaluations"),
            cov.get("distinct_nontrivial"), ev.get("violations"), ev.get("wall_s")))
        if ev["level"] != c["level_claimed"]["category"]:
            print("  LEVEL MISMATCH manifest=%s" % c["level_claimed"]["category"]); ok = False
    except Exception as e:
        ok = False
        print(c["property_id"], "INVALID", str(e)[:300])
sys.exit(0 if ok else 1)
