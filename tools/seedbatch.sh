#!/bin/bash
# usage: tools/seedbatch.sh SRC_DIR RESULT_DIR PROP...   (runs the 1..n seeded changes of each property sequentially, properties in parallel)
SRC=$1; RES=$2; shift 2
mkdir -p $RES
for p in "$@"; do
  ( for d in $SRC/$p-*; do
      b=$(basename $d); [ -f $RES/$b.json ] && continue
      [ -f $d/patch.diff ] || continue
      /verif/tools/seedtest.py $d 2>&1 | tail -1 > $RES/$b.json
    done ) &
  while (( $(jobs -r | wc -l) >= 6 )); do wait -n; done
done
wait
