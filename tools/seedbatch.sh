#!/bin/bash
# usage: tools/seedbatch.sh [--force] ID...   e.g. tools/seedbatch.sh C05-1 C05-2  (ids under /verif/seeded)
# Runs tools/seedtest.py for each id; ids of the same property sequentially, different properties in parallel (6 at a time).
# The result line is stored as seeded/<id>/result.json.
FORCE=0; [ "$1" = "--force" ] && { FORCE=1; shift; }
cd /verif
props=$(for i in "$@"; do echo ${i%%-*}; done | sort -u)
for p in $props; do
  ( for i in "$@"; do
      [ "${i%%-*}" = "$p" ] || continue
      d=seeded/$i
      [ -f $d/patch.diff ] || continue
      [ $FORCE = 0 ] && [ -f $d/result.json ] && continue
      tools/seedtest.py $d 2>&1 | tail -1 > $d/result.json.tmp && mv $d/result.json.tmp $d/result.json
    done ) &
  while (( $(jobs -r | wc -l) >= 6 )); do wait -n; done
done
wait
