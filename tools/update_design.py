#!/usr/bin/env python3
"""Refresh the generated parts of DESIGN.md (between the marker comments) from tools/inventory.py and tools/seedreport.py."""
import os, re, subprocess, sys
V = os.path.dirname(os.path.dirname(os.path.abspath(__file__)))
s = open(os.path.join(V, "DESIGN.md")).read()
def run(tool):
    return subprocess.run(["/venv/bin/python", os.path.join(V, "tools", tool)], capture_output=True, text=True, cwd=V).stdout.strip()
for marker, tool in (("INVENTORY", "inventory.py"), ("SEEDTABLE", "seedreport.py")):
    begin, end = "<!-- BEGIN %s (generated) -->" % marker, "<!-- END %s -->" % marker
    body = begin + "\n" + run(tool) + "\n" + end
    if begin in s:
        s = s[:s.index(begin)] + body + s[s.index(end) + len(end):]
    else:
        s = s.replace("\n" + marker + "\n", "\n" + body + "\n", 1)
open(os.path.join(V, "DESIGN.md"), "w").write(s)
print("DESIGN.md refreshed")
