#!/usr/bin/env python3
"""Run the checks against one seeded change (seeded/<id>/ or any dir with patch.diff, demo*.py, meta.json).

  tools/seedtest.py DIR [--props C05,C07] [--tier quick] [--seed 0] [--skip-demo]

Creates a scratch worktree of /repo HEAD under /tmp, confirms the demonstration passes on the clean
tree and fails with the patch, runs `./check <prop>` with ST4SD_REPO pointing at the patched worktree
(evidence redirected to a scratch dir), prints a JSON result line and removes the worktree.
"""
import argparse, glob, json, os, shutil, subprocess, sys, tempfile, time

VERIF = os.path.dirname(os.path.dirname(os.path.abspath(__file__)))


def sh(cmd, **kw):
    return subprocess.run(cmd, stdout=subprocess.PIPE, stderr=subprocess.STDOUT, text=True, **kw)


def main():
    ap = argparse.ArgumentParser()
    ap.add_argument("dir")
    ap.add_argument("--props", default=None)
    ap.add_argument("--tier", default="quick")
    ap.add_argument("--seed", default="0")
    ap.add_argument("--skip-demo", action="store_true")
    a = ap.parse_args()
    d = os.path.abspath(a.dir)
    meta = json.load(open(os.path.join(d, "meta.json")))
    props = (a.props.split(",") if a.props else [meta["property"]] + list(meta.get("also_check", [])))
    wt = tempfile.mkdtemp(prefix="st-%s-" % os.path.basename(d))
    os.rmdir(wt)
    res = {"seeded": os.path.basename(d), "property": meta["property"]}
    try:
        r = sh(["git", "-C", "/repo", "worktree", "add", "--detach", wt, "HEAD"])
        if r.returncode != 0:
            res["error"] = "worktree: " + r.stdout[-300:]
            print(json.dumps(res)); return 2
        env = dict(os.environ, ST4SD_REPO=wt, PYTHONPATH="%s/python:%s" % (wt, wt), PYTHONDONTWRITEBYTECODE="1")
        env.update(meta.get("demo_env", {}))   # e.g. a PYTHONHASHSEED under which an order-dependent defect shows
        demos = sorted(glob.glob(os.path.join(d, "demo*.py")))
        demo = demos[0] if demos else None

        def run_demo():
            if demo.endswith("_test.py") or os.path.basename(demo).startswith("demo_test"):
                cmd = ["/venv/bin/python", "-m", "pytest", "-q", "-p", "no:cacheprovider", demo]
            else:
                cmd = ["/venv/bin/python", demo]
            try:
                r = sh(cmd, env=env, cwd=wt, timeout=600)
                return r.returncode, r.stdout[-600:]
            except subprocess.TimeoutExpired:
                return 124, "timeout"
        if demo and not a.skip_demo:
            res["demo_clean_rc"], _ = run_demo()
        r = sh(["git", "-C", wt, "apply", os.path.join(d, "patch.diff")])
        if r.returncode != 0:
            res["error"] = "patch does not apply: " + r.stdout[-300:]
            print(json.dumps(res)); return 2
        if demo and not a.skip_demo:
            res["demo_patched_rc"], res["demo_patched_tail"] = run_demo()
        evdir = tempfile.mkdtemp(prefix="st-ev-")
        res["checks"] = {}
        for p in props:
            t0 = time.time()
            env2 = dict(os.environ, ST4SD_REPO=wt, VERIF_EVIDENCE_DIR=evdir, VERIF_SEED=a.seed)
            r = sh([os.path.join(VERIF, "check"), p, "--tier", a.tier], env=env2, cwd=VERIF, timeout=7200)
            lines = [l for l in r.stdout.splitlines() if l.startswith(("VIOLATION", "KNOWN-FINDING", "OK ", "FAIL ", "INFRA"))]
            viol = [l for l in lines if l.startswith("VIOLATION")]
            whats = []
            for l in viol:
                try:
                    rp = l.split("replay=")[1].split()[0]
                    doc = json.load(open(os.path.join(VERIF, rp)))
                    whats.append(doc.get("what") or doc.get("kind"))
                except Exception:
                    pass
            res["checks"][p] = {"rc": r.returncode, "violations": len(viol),
                                "concrete": len([l for l in viol if "no-failing-input-found" not in l]),
                                "whats": whats, "wall_s": round(time.time() - t0, 1),
                                "summary": [l for l in lines if l.startswith(("OK ", "FAIL ", "INFRA"))][-1:]}
        shutil.rmtree(evdir, ignore_errors=True)
    finally:
        sh(["git", "-C", "/repo", "worktree", "remove", "--force", wt])
        shutil.rmtree(wt, ignore_errors=True)
    print(json.dumps(res))
    return 0


if __name__ == "__main__":
    sys.exit(main())
