#!/usr/bin/env python3
"""Assemble MANIFEST.json from manifest.d/Cxx.json fragments (one per claimed property).

A fragment holds: level_text, level_note, technique, design_ref (and optionally category,
not_applicable_reason).  Properties without a fragment are listed under not_applicable.
"""
import json
import os
import sys

VERIF = os.path.dirname(os.path.dirname(os.path.abspath(__file__)))
BASELINE = json.load(open("/root/.vp/BASELINE.json"))["cmd"] if os.path.exists("/root/.vp/BASELINE.json") else \
    "cd /repo && /venv/bin/python -m pytest -ra -q -p no:cacheprovider --timeout=900 --continue-on-collection-errors --junitxml=<file>"

props = [json.loads(l)["id"] for l in open(os.path.join(VERIF, "properties.jsonl")) if l.strip()]
checks, na = [], []
for pid in props:
    f = os.path.join(VERIF, "manifest.d", pid + ".json")
    if not os.path.exists(f):
        na.append({"property_id": pid, "reason": "check not built yet (design in DESIGN.md section 7); nothing is claimed for it"})
        continue
    frag = json.load(open(f))
    if "not_applicable_reason" in frag:
        na.append({"property_id": pid, "reason": frag["not_applicable_reason"]})
        continue
    checks.append({
        "property_id": pid,
        "quick_cmd": "./check %s --tier quick" % pid,
        "thorough_cmd": "./check %s --tier thorough" % pid,
        "evidence_file": "evidence/%s.json" % pid,
        "replay_cmd_template": "./check %s --replay {path}" % pid,
        "engine": "lean4-model+correspondence",
        "level_claimed": {"category": frag.get("category", "proof"), "text": frag["level_text"],
                          "design_ref": frag.get("design_ref", "DESIGN.md section 7, " + pid)},
        "level_note": frag["level_note"],
        "technique": frag["technique"],
    })
hooks_file = os.path.join(VERIF, "manifest.d", "hooks.json")
hooks = json.load(open(hooks_file)) if os.path.exists(hooks_file) else {}
manifest = {
    "version": 1,
    "setup_cmd": "/venv/bin/python -m harness.genconst && cd lean && lake build",
    "hooks": {
        "guard": "ST4SD_RUNTIME_CORE_VERIF",
        "enable": hooks.get("enable", "not used: the harness monkey-patches the runtime from its own process; no guarded hook exists in /repo"),
        "baseline_off_cmd": BASELINE,
        "source_commits": hooks.get("source_commits", []),
        "add_only": True,
    },
    "engines": [{"name": "lean4-model+correspondence", "path": "check",
                 "serves_properties": [c["property_id"] for c in checks],
                 "kind_free_text": "Lean 4 theorems about hand-written executable models (lean/St4sd), constants regenerated from /repo, "
                                   "plus a differential correspondence run (harness/) of model driver vs real Python on every invocation"}],
    "checks": checks,
    "not_applicable": na,
    "notes": "See DESIGN.md. known_findings.json lists recorded findings and fix: commits.",
}
with open(os.path.join(VERIF, "MANIFEST.json"), "w") as fh:
    json.dump(manifest, fh, indent=1)
try:
    import jsonschema
    jsonschema.validate(manifest, json.load(open("/root/.vp/MANIFEST.schema.json")))
    print("MANIFEST.json valid: %d checks, %d not_applicable" % (len(checks), len(na)))
except ImportError:
    print("written (jsonschema not available)")
