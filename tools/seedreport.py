#!/usr/bin/env python3
"""Markdown table of the seeded changes and what the checks say about them (reads seeded/*/meta.json, result.json)."""
import glob, json, os
V = os.path.dirname(os.path.dirname(os.path.abspath(__file__)))
print("| id | seeded change (what it needs to manifest) | demo clean/patched | check verdict on the patched tree |")
print("|---|---|---|---|")
for d in sorted(glob.glob(os.path.join(V, "seeded", "C*-*"))):
    m = json.load(open(os.path.join(d, "meta.json")))
    rf = os.path.join(d, "result.json")
    r = json.load(open(rf)) if os.path.exists(rf) else {}
    title = (m.get("title") or "").replace("|", "/")
    needs = (m.get("needs_to_manifest") or "").replace("|", "/").replace("\n", " ")
    if len(needs) > 220:
        needs = needs[:217] + "..."
    ver = []
    for p, c in (r.get("checks") or {}).items():
        if c["rc"] == 0:
            ver.append("%s: MISSED (exit 0)" % p)
        elif c["concrete"]:
            ver.append("%s: VIOLATION, concrete replay (%s)" % (p, ", ".join(c["whats"][:2])))
        else:
            ver.append("%s: VIOLATION no-failing-input-found" % p)
    print("| %s | %s — %s | %s / %s | %s |" % (os.path.basename(d), title, needs, r.get("demo_clean_rc", "?"),
                                            r.get("demo_patched_rc", "?"), "; ".join(ver) or "not run"))
