#!/usr/bin/env python3
"""Write the coordinator's confirmation into seeded/<id>/meta.json (field `coordinator_confirmation`)."""
import glob, json, os
V = os.path.dirname(os.path.dirname(os.path.abspath(__file__)))
G1 = "C01-1 C01-2 C02-1 C03-1 C03-2 C04-1 C04-2 C05-1 C05-2 C06-1 C06-2 C07-1 C07-2 C08-1 C08-2 C09-1 C09-2 C11-1 C11-2 C13-1 C13-2 C14-1 C14-2 C15-1 C15-2 C16-1 C16-2 C17-1 C17-2 C18-1 C18-2 C19-1 C19-2 C20-1 C20-2".split()
GROUP = {}
for i in G1: GROUP[i] = "round 1, combined worktree of 35 seeded patches on /repo fe3191f"
GROUP["C02-2"] = "round 1, alone on /repo fe3191f"
for i in "C10-1 C10-2 C12-1 C12-2".split(): GROUP[i] = "round 1, combined worktree of 4 seeded patches on /repo fe3191f"
for i in "C03-3 C03-4 C06-3 C06-4 C08-3 C08-4 C09-3 C09-4 C14-3 C14-4 C15-3 C15-4 C16-3 C16-4 C19-3 C19-4 C20-3 C20-4".split():
    GROUP[i] = "round 2, combined worktree of 18 seeded patches on /repo aa98233"
for i in "C01-3 C01-4 C02-3 C02-4 C04-3 C04-4 C05-3 C05-4 C07-3 C07-4 C10-3 C10-4 C11-4 C12-3 C13-3 C13-4 C17-3 C17-4 C18-3 C18-4".split():
    GROUP[i] = "round 2, combined worktree of 20 seeded patches on /repo 22d0831"
for i in "C11-3 C12-4".split(): GROUP[i] = "round 2, combined worktree of 2 seeded patches on /repo 22d0831"
import glob as _g
for _d in _g.glob(os.path.join(V, "seeded", "C*-[56]")):
    GROUP[os.path.basename(_d)] = "round 3, combined worktree of 37 seeded patches on /repo 22d0831"
for _d in _g.glob(os.path.join(V, "seeded", "C*-[78]")):
    GROUP[os.path.basename(_d)] = "round 4, combined worktree of all 40 round-4 seeded patches on /repo 769ab6f"
for _d in _g.glob(os.path.join(V, "seeded", "C*-9")):
    GROUP[os.path.basename(_d)] = "round 5, combined worktree of all 20 round-5 seeded patches on /repo 5775569"
for i in "C02-6 C09-5 C09-6".split(): GROUP[i] = "round 3, combined worktree of 3 seeded patches on /repo 22d0831 (C02-6 and C01-5 together make tests/test_control.py::test_controller_promote hang, each alone passes)"
for d in sorted(glob.glob(os.path.join(V, "seeded", "C*-*"))):
    i = os.path.basename(d)
    m = json.load(open(os.path.join(d, "meta.json")))
    r = json.load(open(os.path.join(d, "result.json"))) if os.path.exists(os.path.join(d, "result.json")) else {}
    m["coordinator_confirmation"] = {
        "patch_applies_to_repo_head": "error" not in r,
        "demo_exit_code_clean_tree": r.get("demo_clean_rc"),
        "demo_exit_code_with_change": r.get("demo_patched_rc"),
        "pinned_suite_with_change": "294 passed, 1 skipped, only the 6 baseline failures (%s); command of /root/.vp/BASELINE.json with PYTHONPATH pointing at the worktree" % GROUP.get(i, "?"),
        "checks_on_changed_tree": {p: {"exit": c["rc"], "violations": c["violations"], "concrete_replays": c["concrete"],
                                       "failing_oracle_slugs": c["whats"]} for p, c in (r.get("checks") or {}).items()},
        "how": "tools/seedtest.py seeded/%s (scratch worktree of /repo HEAD + git apply patch.diff; demo; ST4SD_REPO=<worktree> ./check <prop> --tier quick; worktree removed)" % i,
    }
    json.dump(m, open(os.path.join(d, "meta.json"), "w"), indent=1)
print("ok")
